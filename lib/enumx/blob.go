package enumx

import (
	"archive/tar"
	"bytes"
	"compress/flate"
	"compress/gzip"
	"crypto/sha256"
	"encoding/binary"
	"encoding/hex"
	"encoding/json"
	"fmt"
	"hash/crc32"
	"io"
	"strconv"

	"github.com/klauspost/compress/zstd"
)

// ---- a reader of eStargz blobs written from docs/estargz.md (and the zstd:chunked /
// external-TOC footers documented in the respective packages); no estargz import ----

// TOCEntry mirrors the documented JSON properties of a TOCEntry.
type TOCEntry struct {
	Name        string            `json:"name"`
	Type        string            `json:"type"`
	Size        int64             `json:"size"`
	ModTime     string            `json:"modtime"`
	LinkName    string            `json:"linkName"`
	Mode        int64             `json:"mode"`
	UID         int               `json:"uid"`
	GID         int               `json:"gid"`
	Uname       string            `json:"userName"`
	Gname       string            `json:"groupName"`
	Offset      int64             `json:"offset"`
	InnerOffset int64             `json:"innerOffset"`
	DevMajor    int               `json:"devMajor"`
	DevMinor    int               `json:"devMinor"`
	Xattrs      map[string][]byte `json:"xattrs"`
	Digest      string            `json:"digest"`
	ChunkOffset int64             `json:"chunkOffset"`
	ChunkSize   int64             `json:"chunkSize"`
	ChunkDigest string            `json:"chunkDigest"`
}

// TOC is the documented top-level JSON object.
type TOC struct {
	Version int         `json:"version"`
	Entries []*TOCEntry `json:"entries"`
}

// Stream is one independently decompressible unit of the blob (gzip member / zstd frame).
type Stream struct {
	Start, End int64
	Skippable  bool   // zstd skippable frame
	Data       []byte // decompressed bytes of exactly this stream
}

// Blob is a parsed eStargz blob.
type Blob struct {
	Kind      string // "gzip", "zstd", "ext"
	Raw       []byte
	Streams   []Stream
	TOCOffset int64 // -1 for external TOC
	TOCJSON   []byte
	TOC       TOC
	startIdx  map[int64]int
}

const (
	KindGzip = "gzip"
	KindZstd = "zstd"
	KindExt  = "ext"
)

// GzipMembers splits a byte string into its gzip members (RFC 1952) using only compress/flate
// for the deflate payload; header, CRC32 and ISIZE are checked here.
func GzipMembers(raw []byte) ([]Stream, error) {
	var out []Stream
	pos := 0
	for pos < len(raw) {
		if len(raw)-pos < 18 {
			return out, fmt.Errorf("gzip: %d trailing bytes at %d are too short for a member", len(raw)-pos, pos)
		}
		if raw[pos] != 0x1f || raw[pos+1] != 0x8b || raw[pos+2] != 8 {
			return out, fmt.Errorf("gzip: no member header at offset %d (% x)", pos, raw[pos:pos+3])
		}
		flg := raw[pos+3]
		p := pos + 10
		if flg&4 != 0 {
			if p+2 > len(raw) {
				return out, fmt.Errorf("gzip: truncated FEXTRA at %d", pos)
			}
			p += 2 + int(binary.LittleEndian.Uint16(raw[p:]))
		}
		for _, bit := range []byte{8, 16} {
			if flg&bit != 0 {
				for p < len(raw) && raw[p] != 0 {
					p++
				}
				p++
			}
		}
		if flg&2 != 0 {
			p += 2
		}
		if p > len(raw) {
			return out, fmt.Errorf("gzip: truncated header at %d", pos)
		}
		br := bytes.NewReader(raw[p:]) // io.ByteReader: flate does not read past the final block
		fr := flate.NewReader(br)
		data, err := io.ReadAll(fr)
		if err != nil {
			return out, fmt.Errorf("gzip: member at %d: deflate: %v", pos, err)
		}
		p = len(raw) - br.Len()
		if p+8 > len(raw) {
			return out, fmt.Errorf("gzip: member at %d: truncated trailer", pos)
		}
		if crc := binary.LittleEndian.Uint32(raw[p:]); crc != crc32.ChecksumIEEE(data) {
			return out, fmt.Errorf("gzip: member at %d: CRC32 mismatch", pos)
		}
		if isz := binary.LittleEndian.Uint32(raw[p+4:]); isz != uint32(len(data)) {
			return out, fmt.Errorf("gzip: member at %d: ISIZE %d != %d", pos, isz, len(data))
		}
		p += 8
		out = append(out, Stream{Start: int64(pos), End: int64(p), Data: data})
		pos = p
	}
	return out, nil
}

var zstdDec, _ = zstd.NewReader(nil, zstd.WithDecoderConcurrency(1))
var zstdStream *zstd.Decoder

// ZstdFrames splits a byte string into zstd frames (RFC 8878 section 3.1) by walking
// frame and block headers; each data frame is then decoded on its own.
func ZstdFrames(raw []byte) ([]Stream, error) {
	var out []Stream
	pos := 0
	for pos < len(raw) {
		if len(raw)-pos < 8 {
			return out, fmt.Errorf("zstd: %d trailing bytes at %d", len(raw)-pos, pos)
		}
		magic := binary.LittleEndian.Uint32(raw[pos:])
		if magic&0xfffffff0 == 0x184d2a50 {
			n := int(binary.LittleEndian.Uint32(raw[pos+4:]))
			end := pos + 8 + n
			if end > len(raw) {
				return out, fmt.Errorf("zstd: skippable frame at %d overruns the blob", pos)
			}
			out = append(out, Stream{Start: int64(pos), End: int64(end), Skippable: true, Data: raw[pos+8 : end]})
			pos = end
			continue
		}
		if magic != 0xfd2fb528 {
			return out, fmt.Errorf("zstd: no frame magic at offset %d (% x)", pos, raw[pos:pos+4])
		}
		p := pos + 4
		fhd := raw[p]
		p++
		single := fhd&0x20 != 0
		if !single {
			p++ // window descriptor
		}
		p += []int{0, 1, 2, 4}[fhd&3]
		switch fhd >> 6 {
		case 0:
			if single {
				p++
			}
		case 1:
			p += 2
		case 2:
			p += 4
		case 3:
			p += 8
		}
		for {
			if p+3 > len(raw) {
				return out, fmt.Errorf("zstd: frame at %d: truncated block header", pos)
			}
			bh := int(raw[p]) | int(raw[p+1])<<8 | int(raw[p+2])<<16
			p += 3
			size := bh >> 3
			if (bh>>1)&3 == 1 { // RLE block
				size = 1
			}
			p += size
			if bh&1 != 0 {
				break
			}
		}
		if fhd&4 != 0 {
			p += 4
		}
		if p > len(raw) {
			return out, fmt.Errorf("zstd: frame at %d overruns the blob", pos)
		}
		data, err := zstdDec.DecodeAll(raw[pos:p], nil)
		if err != nil {
			return out, fmt.Errorf("zstd: frame at %d..%d: %v", pos, p, err)
		}
		out = append(out, Stream{Start: int64(pos), End: int64(p), Data: data})
		pos = p
	}
	return out, nil
}

// DecompressAll decompresses the whole blob the way an eStargz-agnostic runtime does:
// compress/gzip in multistream mode, or the klauspost zstd stream decoder.
func DecompressAll(kind string, raw []byte) ([]byte, error) {
	if kind == KindZstd {
		// one stream decoder reused across calls (a fresh decoder allocates its window every time)
		if zstdStream == nil {
			d, err := zstd.NewReader(nil, zstd.WithDecoderConcurrency(1), zstd.WithDecoderLowmem(true))
			if err != nil {
				return nil, err
			}
			zstdStream = d
		}
		if err := zstdStream.Reset(bytes.NewReader(raw)); err != nil {
			return nil, err
		}
		return io.ReadAll(zstdStream)
	}
	zr, err := gzip.NewReader(bytes.NewReader(raw))
	if err != nil {
		return nil, err
	}
	return io.ReadAll(zr)
}

// ParseBlob parses footer and TOC of a blob by the documented rules. externalTOC is the
// separately shipped TOC (gzip-compressed tar holding stargz.index.json) for kind "ext".
func ParseBlob(kind string, raw []byte, externalTOC []byte) (*Blob, error) {
	b := &Blob{Kind: kind, Raw: raw, TOCOffset: -1, startIdx: map[int64]int{}}
	var err error
	if kind == KindZstd {
		b.Streams, err = ZstdFrames(raw)
	} else {
		b.Streams, err = GzipMembers(raw)
	}
	if err != nil {
		return nil, err
	}
	for i, s := range b.Streams {
		b.startIdx[s.Start] = i
	}
	var tocTar []byte
	switch kind {
	case KindGzip:
		// 51-byte footer: gzip header with FEXTRA "SG" + len 22 + %016xSTARGZ, empty stored block, zero trailer
		if len(raw) < 51 {
			return nil, fmt.Errorf("blob of %d bytes has no room for the 51-byte footer", len(raw))
		}
		f := raw[len(raw)-51:]
		want := []byte{0x1f, 0x8b, 8, 4, 0, 0, 0, 0, 0, 255, 26, 0, 'S', 'G', 22, 0}
		if !bytes.Equal(f[:16], want) {
			return nil, fmt.Errorf("footer header is % x, want % x", f[:16], want)
		}
		if string(f[32:38]) != "STARGZ" {
			return nil, fmt.Errorf("footer magic is %q", f[32:38])
		}
		if !bytes.Equal(f[38:], []byte{1, 0, 0, 0xff, 0xff, 0, 0, 0, 0, 0, 0, 0, 0}) {
			return nil, fmt.Errorf("footer tail is % x", f[38:])
		}
		off, err := strconv.ParseInt(string(f[16:32]), 16, 64)
		if err != nil {
			return nil, fmt.Errorf("footer offset %q: %v", f[16:32], err)
		}
		b.TOCOffset = off
		i, ok := b.startIdx[off]
		if !ok {
			return nil, fmt.Errorf("footer says the TOC is at offset %d, which is not the start of a gzip member (members start at %v)", off, b.starts())
		}
		if i != len(b.Streams)-2 {
			return nil, fmt.Errorf("TOC member is stream %d of %d; it must be followed by the footer only", i, len(b.Streams))
		}
		if last := b.Streams[len(b.Streams)-1]; last.End-last.Start != 51 || len(last.Data) != 0 {
			return nil, fmt.Errorf("last member is not the 51-byte empty footer")
		}
		tocTar = b.Streams[i].Data
	case KindExt:
		if len(raw) < 46 {
			return nil, fmt.Errorf("blob of %d bytes has no room for the 46-byte footer", len(raw))
		}
		f := raw[len(raw)-46:]
		want := append([]byte{0x1f, 0x8b, 8, 4, 0, 0, 0, 0, 0, 255, 21, 0, 'S', 'G', 17, 0}, []byte("STARGZEXTERNALTOC")...)
		want = append(want, 1, 0, 0, 0xff, 0xff, 0, 0, 0, 0, 0, 0, 0, 0)
		if !bytes.Equal(f, want) {
			return nil, fmt.Errorf("external-TOC footer is % x", f)
		}
		if last := b.Streams[len(b.Streams)-1]; last.End-last.Start != 46 || len(last.Data) != 0 {
			return nil, fmt.Errorf("last member is not the 46-byte empty footer")
		}
		ms, err := GzipMembers(externalTOC)
		if err != nil || len(ms) != 1 {
			return nil, fmt.Errorf("external TOC is not one gzip member: %v (%d members)", err, len(ms))
		}
		tocTar = ms[0].Data
	case KindZstd:
		// ... skippable frame{compressed TOC}, skippable frame{40-byte footer}
		if len(b.Streams) < 2 {
			return nil, fmt.Errorf("zstd:chunked blob with %d frames", len(b.Streams))
		}
		ff, tf := b.Streams[len(b.Streams)-1], b.Streams[len(b.Streams)-2]
		if !ff.Skippable || len(ff.Data) != 40 || !tf.Skippable {
			return nil, fmt.Errorf("zstd:chunked blob does not end with skippable TOC and 40-byte footer frames")
		}
		f := ff.Data
		off := int64(binary.LittleEndian.Uint64(f[0:]))
		clen := int64(binary.LittleEndian.Uint64(f[8:]))
		ulen := int64(binary.LittleEndian.Uint64(f[16:]))
		typ := binary.LittleEndian.Uint64(f[24:])
		if !bytes.Equal(f[32:40], []byte{0x47, 0x6e, 0x55, 0x6c, 0x49, 0x6e, 0x55, 0x78}) || typ != 1 {
			return nil, fmt.Errorf("zstd:chunked footer magic/type wrong: % x", f)
		}
		if off != tf.Start+8 || clen != int64(len(tf.Data)) {
			return nil, fmt.Errorf("zstd:chunked footer says TOC at %d len %d; the skippable TOC frame payload is at %d len %d", off, clen, tf.Start+8, len(tf.Data))
		}
		b.TOCOffset = off
		j, err := zstdDec.DecodeAll(raw[off:off+clen], nil)
		if err != nil {
			return nil, fmt.Errorf("TOC frame: %v", err)
		}
		if int64(len(j)) != ulen {
			return nil, fmt.Errorf("zstd:chunked footer says TOC JSON has %d bytes, it has %d", ulen, len(j))
		}
		b.TOCJSON = j
	default:
		return nil, fmt.Errorf("unknown kind %q", kind)
	}
	if kind != KindZstd {
		es, err := ParseTar(tocTar)
		if err != nil || len(es) != 1 || es[0].Hdr.Name != "stargz.index.json" || es[0].Hdr.Typeflag != tar.TypeReg {
			return nil, fmt.Errorf("TOC member is not a tar holding exactly stargz.index.json: %v %s", err, Describe(es))
		}
		b.TOCJSON = es[0].Data
	}
	if err := json.Unmarshal(b.TOCJSON, &b.TOC); err != nil {
		return nil, fmt.Errorf("TOC JSON: %v", err)
	}
	return b, nil
}

func (b *Blob) starts() []int64 {
	var s []int64
	for _, x := range b.Streams {
		s = append(s, x.Start)
	}
	return s
}

// IsStreamStart reports whether off is the first byte of a non-skippable compressed stream.
func (b *Blob) IsStreamStart(off int64) bool {
	i, ok := b.startIdx[off]
	return ok && !b.Streams[i].Skippable
}

// PayloadEnd is the offset where file payload streams end (start of TOC / footer).
func (b *Blob) PayloadEnd() int64 {
	switch b.Kind {
	case KindGzip:
		return b.TOCOffset
	case KindZstd:
		return b.TOCOffset - 8
	}
	return int64(len(b.Raw)) - 46
}

// ReadChunk follows the documented rule: seek to offset, decompress the stream that starts
// there, skip innerOffset bytes, take size bytes.
func (b *Blob) ReadChunk(e *TOCEntry, size int64) ([]byte, error) {
	i, ok := b.startIdx[e.Offset]
	if !ok || b.Streams[i].Skippable {
		return nil, fmt.Errorf("offset %d is not the start of a compressed stream (streams start at %v)", e.Offset, b.starts())
	}
	if e.Offset >= b.PayloadEnd() {
		return nil, fmt.Errorf("offset %d lies in the TOC/footer area (payload ends at %d)", e.Offset, b.PayloadEnd())
	}
	d := b.Streams[i].Data
	if e.InnerOffset < 0 || size < 0 || e.InnerOffset+size > int64(len(d)) {
		return nil, fmt.Errorf("stream at offset %d holds %d bytes; innerOffset %d + size %d is out of range", e.Offset, len(d), e.InnerOffset, size)
	}
	return d[e.InnerOffset : e.InnerOffset+size], nil
}

// RangeCheck evaluates the TOC the way a lazily pulling reader uses it: the TOC carries no
// compressed sizes, so the byte range to fetch for a chunk is [offset, next offset), where
// "next offset" is the first different non-zero offset recorded by a later TOC entry of any
// type (or the end of the payload area). Every data chunk's compressed stream must lie
// inside that range, and an entry without data must not claim an offset inside the blob
// that breaks this rule for its predecessors.
func (b *Blob) RangeCheck() error {
	es := b.TOC.Entries
	for i, e := range es {
		if !((e.Type == "reg" && e.Size > 0) || e.Type == "chunk") {
			continue
		}
		end := b.PayloadEnd()
		by := "the end of the payload area"
		for _, n := range es[i+1:] {
			if n.Offset != 0 && n.Offset != e.Offset {
				end = n.Offset
				by = fmt.Sprintf("the offset of the later TOC entry {%s %q size=%d}", n.Type, n.Name, n.Size)
				break
			}
		}
		si, ok := b.startIdx[e.Offset]
		if !ok {
			return fmt.Errorf("%s %q: offset %d is not the start of a compressed stream", e.Type, e.Name, e.Offset)
		}
		if st := b.Streams[si]; end <= e.Offset || st.End > end {
			return fmt.Errorf("%s %q (chunkOffset %d): its compressed stream is [%d,%d), but the range a reader fetches for it is [%d,%d), bounded by %s",
				e.Type, e.Name, e.ChunkOffset, st.Start, st.End, e.Offset, end, by)
		}
	}
	return nil
}

// File is a non-chunk TOC entry with, for regular files, the payload reassembled from its chunks.
type File struct {
	Entry  *TOCEntry
	Chunks []*TOCEntry // reg entry first, then its chunk entries
	Data   []byte
}

func sha(b []byte) string {
	s := sha256.Sum256(b)
	return "sha256:" + hex.EncodeToString(s[:])
}

// Files reads every file through the TOC by the documented rules and verifies chunk
// tiling, chunkDigest and digest.
func (b *Blob) Files() ([]File, error) {
	var out []File
	es := b.TOC.Entries
	for i := 0; i < len(es); i++ {
		e := es[i]
		if e.Type == "chunk" {
			return out, fmt.Errorf("TOC entry %d: chunk %q does not follow a regular file", i, e.Name)
		}
		f := File{Entry: e}
		if e.Type != "reg" {
			out = append(out, f)
			continue
		}
		f.Chunks = []*TOCEntry{e}
		for i+1 < len(es) && es[i+1].Type == "chunk" {
			i++
			if es[i].Name != e.Name {
				return out, fmt.Errorf("TOC entry %d: chunk named %q follows regular file %q", i, es[i].Name, e.Name)
			}
			f.Chunks = append(f.Chunks, es[i])
		}
		if e.Size == 0 {
			if len(f.Chunks) > 1 {
				return out, fmt.Errorf("empty file %q has chunk entries", e.Name)
			}
		} else {
			var at int64
			for k, c := range f.Chunks {
				if c.ChunkOffset != at {
					return out, fmt.Errorf("file %q chunk %d: chunkOffset %d, previous chunks end at %d", e.Name, k, c.ChunkOffset, at)
				}
				sz := c.ChunkSize
				last := k == len(f.Chunks)-1
				if sz == 0 {
					if !last {
						return out, fmt.Errorf("file %q chunk %d of %d has chunkSize 0 but is not the last chunk", e.Name, k, len(f.Chunks))
					}
					sz = e.Size - at
				}
				if at+sz > e.Size {
					return out, fmt.Errorf("file %q chunk %d: [%d,%d) exceeds size %d", e.Name, k, at, at+sz, e.Size)
				}
				d, err := b.ReadChunk(c, sz)
				if err != nil {
					return out, fmt.Errorf("file %q chunk %d (offset=%d innerOffset=%d chunkOffset=%d size=%d): %v", e.Name, k, c.Offset, c.InnerOffset, c.ChunkOffset, sz, err)
				}
				if c.ChunkDigest == "" {
					return out, fmt.Errorf("file %q chunk %d has no chunkDigest", e.Name, k)
				}
				if got := sha(d); got != c.ChunkDigest {
					return out, fmt.Errorf("file %q chunk %d (offset=%d innerOffset=%d chunkOffset=%d size=%d): bytes read by the documented rule are %q with %s, chunkDigest is %s", e.Name, k, c.Offset, c.InnerOffset, c.ChunkOffset, sz, clip(d), got, c.ChunkDigest)
				}
				f.Data = append(f.Data, d...)
				at += sz
			}
			if at != e.Size {
				return out, fmt.Errorf("file %q: chunks cover %d of %d bytes", e.Name, at, e.Size)
			}
		}
		if e.Digest != "" {
			if got := sha(f.Data); got != e.Digest {
				return out, fmt.Errorf("file %q: digest of reassembled payload %s != digest %s", e.Name, got, e.Digest)
			}
		} else if e.Size > 0 {
			return out, fmt.Errorf("file %q has no digest", e.Name)
		}
		out = append(out, f)
	}
	return out, nil
}

// TOCType maps a tar typeflag to the documented TOCEntry type.
func TOCType(t byte) string {
	switch t {
	case tar.TypeReg:
		return "reg"
	case tar.TypeDir:
		return "dir"
	case tar.TypeSymlink:
		return "symlink"
	case tar.TypeLink:
		return "hardlink"
	case tar.TypeChar:
		return "char"
	case tar.TypeBlock:
		return "block"
	case tar.TypeFifo:
		return "fifo"
	}
	return "?"
}

// FileVsTar compares a file read through the TOC with a tar entry.
func FileVsTar(f File, p Parsed) string {
	e, h := f.Entry, p.Hdr
	var d []string
	c := func(n string, x, y any) {
		if fmt.Sprint(x) != fmt.Sprint(y) {
			d = append(d, fmt.Sprintf("%s: TOC %v != tar %v", n, x, y))
		}
	}
	c("name", e.Name, h.Name)
	c("type", e.Type, TOCType(h.Typeflag))
	if h.Typeflag == tar.TypeReg {
		c("size", e.Size, h.Size)
	}
	c("linkName", e.LinkName, h.Linkname)
	c("mode", e.Mode, h.Mode)
	c("uid", e.UID, h.Uid)
	c("gid", e.GID, h.Gid)
	mt := ""
	if !h.ModTime.IsZero() && h.ModTime.Unix() != 0 {
		mt = h.ModTime.UTC().Format("2006-01-02T15:04:05Z07:00")
	}
	c("modtime", e.ModTime, mt)
	xa := map[string]string{}
	for k, v := range h.PAXRecords {
		if len(k) > 13 && k[:13] == "SCHILY.xattr." {
			xa[k[13:]] = v
		}
	}
	xb := map[string]string{}
	for k, v := range e.Xattrs {
		xb[k] = string(v)
	}
	c("xattrs", fmt.Sprint(xb), fmt.Sprint(xa))
	if h.Typeflag == tar.TypeReg && !bytes.Equal(f.Data, p.Data) {
		d = append(d, fmt.Sprintf("content read through the TOC %q != tar payload %q", clip(f.Data), clip(p.Data)))
	}
	if len(d) == 0 {
		return ""
	}
	return fmt.Sprintf("%q: %v", h.Name, d)
}

// Sha256 returns the "sha256:<hex>" digest string.
func Sha256(b []byte) string { return sha(b) }
