// Package enumx holds the shared generators and the independent oracles of the
// input-enumeration checks on the eStargz builder (C03, C14): small tar
// archives over an entry alphabet, a from-the-spec reader of eStargz blobs
// (docs/estargz.md) that does not use the estargz package, and the reference
// model of the prioritized-files layout contract.
package enumx

import (
	"archive/tar"
	"bytes"
	"fmt"
	"io"
	"path"
	"sort"
	"strings"
	"time"
)

// Ent is the specification of one tar entry of a generated archive.
type Ent struct {
	Name   string
	Type   byte // tar.TypeReg, TypeDir, TypeSymlink, TypeLink
	Link   string
	Size   int
	Mode   int64
	UID    int
	GID    int
	Uname  string
	Gname  string
	MTime  int64 // unix seconds, 0 = zero time
	Xattrs map[string]string
}

// Content returns the deterministic payload of the entry placed at position pos of an archive.
// Payloads of different positions differ, so misplaced / stale data is detectable.
func Content(pos, size int) []byte {
	b := make([]byte, size)
	for i := range b {
		b[i] = byte(33 + (pos*37+i*11+(i/5)*3)%90)
	}
	return b
}

// BuildTar serialises the entries with archive/tar (closed archive, i.e. with the end-of-archive marker).
func BuildTar(ents []Ent) []byte {
	var buf bytes.Buffer
	tw := tar.NewWriter(&buf)
	for pos, e := range ents {
		h := &tar.Header{Typeflag: e.Type, Name: e.Name, Linkname: e.Link, Mode: e.Mode, Uid: e.UID, Gid: e.GID, Uname: e.Uname, Gname: e.Gname}
		if e.MTime != 0 {
			h.ModTime = time.Unix(e.MTime, 0).UTC()
		}
		if e.Type == tar.TypeReg {
			h.Size = int64(e.Size)
		}
		if len(e.Xattrs) > 0 {
			h.PAXRecords = map[string]string{}
			for k, v := range e.Xattrs {
				h.PAXRecords["SCHILY.xattr."+k] = v
			}
		}
		if err := tw.WriteHeader(h); err != nil {
			panic(fmt.Sprintf("enumx.BuildTar: %v", err))
		}
		if e.Type == tar.TypeReg && e.Size > 0 {
			if _, err := tw.Write(Content(pos, e.Size)); err != nil {
				panic(err)
			}
		}
	}
	if err := tw.Close(); err != nil {
		panic(err)
	}
	return buf.Bytes()
}

// Parsed is one entry read back with archive/tar.
type Parsed struct {
	Hdr  *tar.Header
	Data []byte
}

// ParseTar reads every entry of a tar stream with archive/tar.
func ParseTar(b []byte) ([]Parsed, error) {
	tr := tar.NewReader(bytes.NewReader(b))
	var out []Parsed
	for {
		h, err := tr.Next()
		if err == io.EOF {
			return out, nil
		}
		if err != nil {
			return out, fmt.Errorf("archive/tar: entry %d: %v", len(out), err)
		}
		d, err := io.ReadAll(tr)
		if err != nil {
			return out, fmt.Errorf("archive/tar: payload of %q: %v", h.Name, err)
		}
		out = append(out, Parsed{h, d})
	}
}

// Clean normalises an entry name to the path relative to the root ("" is the root).
func Clean(name string) string {
	return strings.TrimPrefix(path.Clean("/"+name), "/")
}

// LastWins drops every entry that is followed by another entry of the same (cleaned) name.
func LastWins(es []Parsed) []Parsed {
	last := map[string]int{}
	for i, e := range es {
		last[Clean(e.Hdr.Name)] = i
	}
	var out []Parsed
	for i, e := range es {
		if last[Clean(e.Hdr.Name)] == i {
			out = append(out, e)
		}
	}
	return out
}

// Without drops the entries whose cleaned name is one of names.
func Without(es []Parsed, names ...string) []Parsed {
	var out []Parsed
	for _, e := range es {
		skip := false
		for _, n := range names {
			if Clean(e.Hdr.Name) == n {
				skip = true
			}
		}
		if !skip {
			out = append(out, e)
		}
	}
	return out
}

// HeaderDiff returns "" when the two headers describe the same entry metadata.
func HeaderDiff(a, b *tar.Header) string {
	var d []string
	f := func(n string, x, y any) {
		if fmt.Sprint(x) != fmt.Sprint(y) {
			d = append(d, fmt.Sprintf("%s: %v != %v", n, x, y))
		}
	}
	f("typeflag", a.Typeflag, b.Typeflag)
	f("name", a.Name, b.Name)
	f("linkname", a.Linkname, b.Linkname)
	f("size", a.Size, b.Size)
	f("mode", a.Mode, b.Mode)
	f("uid", a.Uid, b.Uid)
	f("gid", a.Gid, b.Gid)
	f("uname", a.Uname, b.Uname)
	f("gname", a.Gname, b.Gname)
	f("modtime", a.ModTime.UnixNano(), b.ModTime.UnixNano())
	f("atime", a.AccessTime.UnixNano(), b.AccessTime.UnixNano())
	f("ctime", a.ChangeTime.UnixNano(), b.ChangeTime.UnixNano())
	f("devmajor", a.Devmajor, b.Devmajor)
	f("devminor", a.Devminor, b.Devminor)
	f("pax", paxString(a.PAXRecords), paxString(b.PAXRecords))
	return strings.Join(d, ", ")
}

func paxString(m map[string]string) string {
	var ks []string
	for k := range m {
		// mtime/atime/ctime/path/... records are derived from the header fields compared above
		if strings.HasPrefix(k, "SCHILY.xattr.") {
			ks = append(ks, k+"="+m[k])
		}
	}
	sort.Strings(ks)
	return strings.Join(ks, ";")
}

// EntryDiff compares header and payload.
func EntryDiff(a, b Parsed) string {
	if d := HeaderDiff(a.Hdr, b.Hdr); d != "" {
		return d
	}
	if !bytes.Equal(a.Data, b.Data) {
		return fmt.Sprintf("content of %q: %q != %q", a.Hdr.Name, clip(a.Data), clip(b.Data))
	}
	return ""
}

func clip(b []byte) string {
	if len(b) > 40 {
		return string(b[:40]) + fmt.Sprintf("...(%d bytes)", len(b))
	}
	return string(b)
}

// Describe renders an entry list compactly (for messages).
func Describe(es []Parsed) string {
	var s []string
	for _, e := range es {
		switch e.Hdr.Typeflag {
		case tar.TypeReg:
			s = append(s, fmt.Sprintf("%s(%d)", e.Hdr.Name, e.Hdr.Size))
		case tar.TypeLink:
			s = append(s, fmt.Sprintf("%s=>%s", e.Hdr.Name, e.Hdr.Linkname))
		case tar.TypeSymlink:
			s = append(s, fmt.Sprintf("%s->%s", e.Hdr.Name, e.Hdr.Linkname))
		default:
			s = append(s, e.Hdr.Name)
		}
	}
	return "[" + strings.Join(s, " ") + "]"
}

// DescribeEnts renders a specification list.
func DescribeEnts(es []Ent) string {
	var s []string
	for _, e := range es {
		switch e.Type {
		case tar.TypeReg:
			x := ""
			if len(e.Xattrs) > 0 {
				x = "+xattr"
			}
			s = append(s, fmt.Sprintf("%s(%d%s)", e.Name, e.Size, x))
		case tar.TypeLink:
			s = append(s, fmt.Sprintf("%s=>%s", e.Name, e.Link))
		case tar.TypeSymlink:
			s = append(s, fmt.Sprintf("%s->%s", e.Name, e.Link))
		default:
			s = append(s, e.Name)
		}
	}
	return "[" + strings.Join(s, " ") + "]"
}

// Sequences calls fn for every sequence over [0,n) of length 0..maxLen, shortest first
// (all sequences of length k before any of length k+1), lexicographic within a length.
// fn returning false stops the enumeration.
func Sequences(n, maxLen int, fn func(seq []int) bool) {
	for l := 0; l <= maxLen; l++ {
		seq := make([]int, l)
		for {
			if !fn(seq) {
				return
			}
			i := l - 1
			for i >= 0 {
				seq[i]++
				if seq[i] < n {
					break
				}
				seq[i] = 0
				i--
			}
			if i < 0 {
				break
			}
		}
	}
}

// Layout is the reference model of the prioritized-files layout contract:
// given the (de-duplicated) input entries and the prioritized list it returns
// the indices of the leading group in output order, the remaining indices in
// original order and the listed paths that do not exist.
//
// Each listed file is preceded by its not-yet-placed parent directories (outermost
// first) and, for a hardlink, by its link target (with that target's own
// prerequisites); everything is placed at most once. A parent directory without
// an entry of its own has nothing to place.
func Layout(es []Parsed, list []string) (lead, rest []int, missing []string) {
	idx := map[string]int{}
	for i, e := range es {
		idx[Clean(e.Hdr.Name)] = i
	}
	placed := map[int]bool{}
	var place func(name string, depth int) bool
	place = func(name string, depth int) bool {
		c := Clean(name)
		i, ok := idx[c]
		if c == "" {
			if ok && !placed[i] {
				placed[i] = true
				lead = append(lead, i)
			}
			return true
		}
		if !ok {
			return false
		}
		if depth > 16 {
			return true
		}
		// parents, outermost first
		parts := strings.Split(c, "/")
		place("", depth+1)
		for k := 1; k < len(parts); k++ {
			p := strings.Join(parts[:k], "/")
			if _, ok := idx[p]; ok {
				place(p, depth+1)
			}
		}
		if es[i].Hdr.Typeflag == tar.TypeLink {
			place(es[i].Hdr.Linkname, depth+1)
		}
		if !placed[i] {
			placed[i] = true
			lead = append(lead, i)
		}
		return true
	}
	for _, l := range list {
		if !place(l, 0) {
			missing = append(missing, l)
		}
	}
	for i := range es {
		if !placed[i] {
			rest = append(rest, i)
		}
	}
	return
}
