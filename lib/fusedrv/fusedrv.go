// Package fusedrv drives a go-fuse node tree the way the kernel does, without a
// mount: the root InodeEmbedder is wrapped by go-fuse's real bridge
// (fs.NewNodeFS -> fuse.RawFileSystem) and every operation is a raw FUSE request
// addressed by node id / file handle: LOOKUP, GETATTR, OPENDIR, READDIR(PLUS),
// RELEASEDIR, OPEN, READ, RELEASE, GETXATTR, LISTXATTR, READLINK, FORGET.
// Directory replies are decoded from the wire format (fuse_dirent /
// fuse_direntplus) exactly as the kernel would decode them.
package fusedrv

import (
	"encoding/binary"
	"fmt"
	"sort"
	"strings"
	"syscall"
	"unsafe"

	fusefs "github.com/hanwen/go-fuse/v2/fs"
	"github.com/hanwen/go-fuse/v2/fuse"

	"verif/lib/reftar"
)

// RootID is the node id of the root (FUSE_ROOT_ID).
const RootID = 1

// Driver is one "mounted" node tree.
type Driver struct {
	fs      fuse.RawFileSystem
	root    fusefs.InodeEmbedder
	lookups map[uint64]uint64 // node id -> lookup count the "kernel" holds
	unique  uint64
	// Ops counts the raw requests issued.
	Ops int64
}

// New wraps root with the go-fuse bridge (this also initialises root's embedded Inode).
func New(root fusefs.InodeEmbedder) *Driver {
	rfs := fusefs.NewNodeFS(root, &fusefs.Options{})
	return &Driver{fs: rfs, root: root, lookups: map[uint64]uint64{}}
}

// Root returns the root operations object.
func (d *Driver) Root() fusefs.InodeEmbedder { return d.root }

func (d *Driver) hdr(node uint64) fuse.InHeader {
	d.unique++
	d.Ops++
	return fuse.InHeader{Unique: d.unique, NodeId: node}
}

func errno(s fuse.Status) syscall.Errno { return syscall.Errno(s) }

// Entry is the reply of LOOKUP.
type Entry struct {
	NodeID uint64
	Gen    uint64
	Attr   fuse.Attr
}

// Lookup sends LOOKUP(dir, name). A positive reply raises the node's lookup count.
func (d *Driver) Lookup(dir uint64, name string) (Entry, syscall.Errno) {
	h := d.hdr(dir)
	var out fuse.EntryOut
	st := d.fs.Lookup(nil, &h, name, &out)
	if st != fuse.OK {
		return Entry{}, errno(st)
	}
	if out.NodeId == 0 { // negative entry
		return Entry{}, syscall.ENOENT
	}
	d.lookups[out.NodeId]++
	return Entry{NodeID: out.NodeId, Gen: out.Generation, Attr: out.Attr}, 0
}

// Forget drops n lookups of a node (FORGET).
func (d *Driver) Forget(node uint64, n uint64) {
	if node == RootID || d.lookups[node] < n {
		return
	}
	d.Ops++
	d.lookups[node] -= n
	if d.lookups[node] == 0 {
		delete(d.lookups, node)
	}
	d.fs.Forget(node, n)
}

// ForgetAll forgets every node the driver still references.
func (d *Driver) ForgetAll() {
	var ids []uint64
	for id := range d.lookups {
		ids = append(ids, id)
	}
	sort.Slice(ids, func(i, j int) bool { return ids[i] > ids[j] })
	for _, id := range ids {
		d.Forget(id, d.lookups[id])
	}
}

// GetAttr sends GETATTR(node) without a file handle.
func (d *Driver) GetAttr(node uint64) (fuse.Attr, syscall.Errno) {
	in := fuse.GetAttrIn{InHeader: d.hdr(node)}
	var out fuse.AttrOut
	st := d.fs.GetAttr(nil, &in, &out)
	return out.Attr, errno(st)
}

// Dirent is one decoded fuse_dirent.
type Dirent struct {
	Name string
	Ino  uint64
	Type uint32 // S_IF* bits (d_type << 12)
	Off  uint64
	// Plus is set by ReadDirPlus: the embedded fuse_entry_out.
	Plus *Entry
}

const direntHdr = 24 // ino u64, off u64, namelen u32, type u32

var entryOutSize = int(unsafe.Sizeof(fuse.EntryOut{}))

func decodeDirents(buf []byte, plus bool) ([]Dirent, error) {
	var out []Dirent
	for len(buf) > 0 {
		var e *Entry
		if plus {
			if len(buf) < entryOutSize {
				return out, fmt.Errorf("short direntplus: %d bytes left", len(buf))
			}
			eo := (*fuse.EntryOut)(unsafe.Pointer(&buf[0]))
			e = &Entry{NodeID: eo.NodeId, Gen: eo.Generation, Attr: eo.Attr}
			buf = buf[entryOutSize:]
		}
		if len(buf) < direntHdr {
			return out, fmt.Errorf("short dirent: %d bytes left", len(buf))
		}
		ino := binary.LittleEndian.Uint64(buf[0:])
		off := binary.LittleEndian.Uint64(buf[8:])
		nl := int(binary.LittleEndian.Uint32(buf[16:]))
		typ := binary.LittleEndian.Uint32(buf[20:])
		rec := (direntHdr + nl + 7) &^ 7
		if rec > len(buf) {
			return out, fmt.Errorf("dirent of %d bytes overruns the buffer (%d left)", rec, len(buf))
		}
		out = append(out, Dirent{Name: string(buf[direntHdr : direntHdr+nl]), Ino: ino, Type: typ << 12, Off: off, Plus: e})
		buf = buf[rec:]
	}
	return out, nil
}

func (d *Driver) readdir(node uint64, plus bool, bufSize int) ([]Dirent, syscall.Errno) {
	oin := fuse.OpenIn{InHeader: d.hdr(node)}
	var oout fuse.OpenOut
	if st := d.fs.OpenDir(nil, &oin, &oout); st != fuse.OK {
		return nil, errno(st)
	}
	defer func() {
		d.Ops++
		d.fs.ReleaseDir(&fuse.ReleaseIn{InHeader: fuse.InHeader{NodeId: node}, Fh: oout.Fh})
	}()
	var all []Dirent
	off := uint64(0)
	for {
		buf := make([]byte, bufSize)
		list := fuse.NewDirEntryList(buf, off)
		rin := fuse.ReadIn{InHeader: d.hdr(node), Fh: oout.Fh, Offset: off, Size: uint32(bufSize)}
		var st fuse.Status
		if plus {
			st = d.fs.ReadDirPlus(nil, &rin, list)
		} else {
			st = d.fs.ReadDir(nil, &rin, list)
		}
		if st != fuse.OK {
			return all, errno(st)
		}
		// the list serialised into buf[:n]; recover n from the entries
		n := direntListLen(buf, plus)
		if n == 0 {
			return all, 0
		}
		ents, err := decodeDirents(buf[:n], plus)
		if err != nil {
			return all, syscall.EPROTO
		}
		for _, e := range ents {
			if e.Plus != nil && e.Plus.NodeID != 0 {
				d.lookups[e.Plus.NodeID]++
			}
		}
		all = append(all, ents...)
		off = list.Offset
	}
}

// direntListLen scans the zero-initialised reply buffer for the end of the
// serialised entries (every record has a non-zero "off" field).
func direntListLen(buf []byte, plus bool) int {
	n := 0
	for {
		p := n
		if plus {
			p += entryOutSize
		}
		if p+direntHdr > len(buf) {
			return n
		}
		off := binary.LittleEndian.Uint64(buf[p+8:])
		if off == 0 {
			return n
		}
		nl := int(binary.LittleEndian.Uint32(buf[p+16:]))
		n = p + ((direntHdr + nl + 7) &^ 7)
		if n > len(buf) {
			return len(buf)
		}
	}
}

// ReadDir lists a directory with OPENDIR, READDIR until empty, RELEASEDIR.
func (d *Driver) ReadDir(node uint64) ([]Dirent, syscall.Errno) { return d.readdir(node, false, 4096) }

// ReadDirPlus does the same with READDIRPLUS (each named entry is looked up by the bridge).
func (d *Driver) ReadDirPlus(node uint64) ([]Dirent, syscall.Errno) {
	return d.readdir(node, true, 8192)
}

// Open sends OPEN(node, O_RDONLY).
func (d *Driver) Open(node uint64) (fh uint64, flags uint32, e syscall.Errno) {
	in := fuse.OpenIn{InHeader: d.hdr(node), Flags: uint32(syscall.O_RDONLY)}
	var out fuse.OpenOut
	st := d.fs.Open(nil, &in, &out)
	return out.Fh, out.OpenFlags, errno(st)
}

// ReadFh sends READ(node, fh, off, size).
func (d *Driver) ReadFh(node, fh uint64, off int64, size int) ([]byte, syscall.Errno) {
	in := fuse.ReadIn{InHeader: d.hdr(node), Fh: fh, Offset: uint64(off), Size: uint32(size)}
	buf := make([]byte, size)
	for i := range buf {
		buf[i] = 0xEE // poison: bytes the implementation did not write are recognisable
	}
	res, st := d.fs.Read(nil, &in, buf)
	if st != fuse.OK {
		return nil, errno(st)
	}
	if res == nil {
		return nil, 0
	}
	b, st2 := res.Bytes(make([]byte, size))
	res.Done()
	if st2 != fuse.OK {
		return nil, errno(st2)
	}
	return append([]byte(nil), b...), 0
}

// Release sends RELEASE(node, fh).
func (d *Driver) Release(node, fh uint64) {
	d.Ops++
	d.fs.Release(nil, &fuse.ReleaseIn{InHeader: fuse.InHeader{NodeId: node}, Fh: fh})
}

// Read is OPEN + READ(off, size) + RELEASE.
func (d *Driver) Read(node uint64, off int64, size int) ([]byte, syscall.Errno) {
	fh, _, e := d.Open(node)
	if e != 0 {
		return nil, e
	}
	defer d.Release(node, fh)
	return d.ReadFh(node, fh, off, size)
}

// ReadAll reads a whole file the way read(2) loops do: READ requests of chunk
// bytes until a short reply.
func (d *Driver) ReadAll(node uint64, chunk int) ([]byte, syscall.Errno) {
	fh, _, e := d.Open(node)
	if e != 0 {
		return nil, e
	}
	defer d.Release(node, fh)
	var all []byte
	for {
		b, e := d.ReadFh(node, fh, int64(len(all)), chunk)
		if e != 0 {
			return all, e
		}
		all = append(all, b...)
		if len(b) < chunk {
			return all, 0
		}
		if len(all) > 1<<24 {
			return all, syscall.EFBIG
		}
	}
}

// GetXAttr does what getxattr(2) does: a size probe (size 0) followed by the real request.
func (d *Driver) GetXAttr(node uint64, name string) ([]byte, syscall.Errno) {
	h := d.hdr(node)
	sz, st := d.fs.GetXAttr(nil, &h, name, nil)
	if st != fuse.OK && st != fuse.ERANGE {
		return nil, errno(st)
	}
	buf := make([]byte, sz)
	h = d.hdr(node)
	n, st := d.fs.GetXAttr(nil, &h, name, buf)
	if st != fuse.OK {
		return nil, errno(st)
	}
	if int(n) > len(buf) {
		return nil, syscall.ERANGE
	}
	return buf[:n], 0
}

// ListXAttr does what listxattr(2) does and splits the NUL-separated reply.
func (d *Driver) ListXAttr(node uint64) ([]string, syscall.Errno) {
	h := d.hdr(node)
	sz, st := d.fs.ListXAttr(nil, &h, nil)
	if st != fuse.OK && st != fuse.ERANGE {
		return nil, errno(st)
	}
	if sz == 0 {
		return nil, 0
	}
	buf := make([]byte, sz)
	h = d.hdr(node)
	n, st := d.fs.ListXAttr(nil, &h, buf)
	if st != fuse.OK {
		return nil, errno(st)
	}
	if int(n) > len(buf) {
		return nil, syscall.ERANGE
	}
	var out []string
	for _, s := range strings.Split(string(buf[:n]), "\x00") {
		if s != "" {
			out = append(out, s)
		}
	}
	if n > 0 && buf[n-1] != 0 {
		return out, syscall.EPROTO
	}
	return out, 0
}

// Readlink sends READLINK(node).
func (d *Driver) Readlink(node uint64) ([]byte, syscall.Errno) {
	h := d.hdr(node)
	b, st := d.fs.Readlink(nil, &h)
	return b, errno(st)
}

// Resolve walks an absolute path from the root with LOOKUPs ("/" is the root itself).
func (d *Driver) Resolve(p string) (Entry, syscall.Errno) {
	cur := Entry{NodeID: RootID}
	if p == "/" || p == "" {
		a, e := d.GetAttr(RootID)
		cur.Attr = a
		return cur, e
	}
	for _, c := range strings.Split(strings.Trim(p, "/"), "/") {
		n, e := d.Lookup(cur.NodeID, c)
		if e != 0 {
			return Entry{}, e
		}
		cur = n
	}
	return cur, 0
}

// AttrToEntry converts a FUSE attr to the snapshot shape.
func AttrToEntry(a fuse.Attr) *reftar.Entry {
	return &reftar.Entry{
		Mode: a.Mode, Size: int64(a.Size), UID: a.Uid, GID: a.Gid,
		Mtime: int64(a.Mtime), MtimeNs: a.Mtimensec, Rdev: a.Rdev, Nlink: a.Nlink, Ino: a.Ino,
	}
}

// WalkOpts tunes Walk.
type WalkOpts struct {
	// Plus lists with READDIRPLUS instead of READDIR.
	Plus bool
	// ReadChunk is the READ request size used for file contents (default 4096).
	ReadChunk int
	// Hidden names the walk must not descend into although they may be looked up (e.g. a state dir).
	SkipNames []string
}

// Snapshot is the result of Walk.
type Snapshot struct {
	Tree reftar.Tree
	// Problems are protocol-level inconsistencies met on the way: a listed name whose
	// LOOKUP fails, a dirent whose type or inode differs from LOOKUP/GETATTR, an
	// invalid dirent name, ... Each starts with a stable class word.
	Problems []string
}

// Walk takes a complete snapshot of the tree below the root: READDIR of every
// directory, LOOKUP + GETATTR of every listed name, LISTXATTR + GETXATTR, READLINK
// of symlinks and the full content of regular files.
func (d *Driver) Walk(o WalkOpts) *Snapshot {
	if o.ReadChunk == 0 {
		o.ReadChunk = 4096
	}
	s := &Snapshot{Tree: reftar.Tree{}}
	ra, e := d.GetAttr(RootID)
	if e != 0 {
		s.Problems = append(s.Problems, fmt.Sprintf("getattr-failed /: %v", e))
		return s
	}
	re := AttrToEntry(ra)
	s.Tree["/"] = re
	d.fillNode(s, "/", RootID, re, o)
	d.walkDir(s, "/", RootID, o, 0)
	return s
}

func (d *Driver) fillNode(s *Snapshot, p string, id uint64, e *reftar.Entry, o WalkOpts) {
	names, en := d.ListXAttr(id)
	if en != 0 {
		s.Problems = append(s.Problems, fmt.Sprintf("listxattr-failed %s: %v", p, en))
	}
	for _, n := range names {
		v, en := d.GetXAttr(id, n)
		if en != 0 {
			s.Problems = append(s.Problems, fmt.Sprintf("listed-xattr-not-gettable %s: %q: %v", p, n, en))
			continue
		}
		if e.Xattrs == nil {
			e.Xattrs = map[string]string{}
		}
		if _, dup := e.Xattrs[n]; dup {
			s.Problems = append(s.Problems, fmt.Sprintf("xattr-listed-twice %s: %q", p, n))
		}
		e.Xattrs[n] = string(v)
	}
	switch e.Mode & reftar.SIFMT {
	case reftar.SIFLNK:
		b, en := d.Readlink(id)
		if en != 0 {
			s.Problems = append(s.Problems, fmt.Sprintf("readlink-failed %s: %v", p, en))
		}
		e.Link = string(b)
	case reftar.SIFREG:
		b, en := d.ReadAll(id, o.ReadChunk)
		if en != 0 {
			s.Problems = append(s.Problems, fmt.Sprintf("read-failed %s: %v", p, en))
		}
		e.Content = b
	}
}

func (d *Driver) walkDir(s *Snapshot, p string, id uint64, o WalkOpts, depth int) {
	if depth > 64 {
		s.Problems = append(s.Problems, "too-deep "+p)
		return
	}
	var ents []Dirent
	var en syscall.Errno
	if o.Plus {
		ents, en = d.ReadDirPlus(id)
	} else {
		ents, en = d.ReadDir(id)
	}
	if en != 0 {
		s.Problems = append(s.Problems, fmt.Sprintf("readdir-failed %s: %v", p, en))
		return
	}
	seen := map[string]bool{}
	for _, de := range ents {
		if de.Name == "." || de.Name == ".." {
			continue
		}
		cp := reftar.Join(p, de.Name)
		if de.Name == "" || strings.ContainsAny(de.Name, "/\x00") {
			// the kernel rejects such a reply (fuse: parse_dirfile -> EIO)
			s.Problems = append(s.Problems, fmt.Sprintf("invalid-dirent-name %s: listing has name %q (type %s, ino %d)", p, de.Name, reftar.TypeName(de.Type), de.Ino))
			continue
		}
		if seen[de.Name] {
			s.Problems = append(s.Problems, fmt.Sprintf("listed-twice %s", cp))
			continue
		}
		seen[de.Name] = true
		ent, en := d.Lookup(id, de.Name)
		if en != 0 {
			s.Problems = append(s.Problems, fmt.Sprintf("listed-but-lookup-fails %s: dirent type %s ino %d, LOOKUP: %v", cp, reftar.TypeName(de.Type), de.Ino, en))
			continue
		}
		ga, en := d.GetAttr(ent.NodeID)
		if en != 0 {
			s.Problems = append(s.Problems, fmt.Sprintf("getattr-failed %s: %v", cp, en))
			continue
		}
		if ga != ent.Attr {
			s.Problems = append(s.Problems, fmt.Sprintf("lookup-getattr-differ %s: LOOKUP %+v, GETATTR %+v", cp, ent.Attr, ga))
		}
		e := AttrToEntry(ga)
		e.Listed, e.DirentType, e.DirentIno = true, de.Type, de.Ino
		if de.Type != ga.Mode&reftar.SIFMT {
			s.Problems = append(s.Problems, fmt.Sprintf("dirent-type-differs %s: listing says %s, LOOKUP says %s", cp, reftar.TypeName(de.Type), reftar.TypeName(ga.Mode)))
		}
		if de.Ino != ga.Ino {
			s.Problems = append(s.Problems, fmt.Sprintf("dirent-ino-differs %s: listing says %d, LOOKUP says %d", cp, de.Ino, ga.Ino))
		}
		if de.Plus != nil && de.Plus.NodeID != 0 && (de.Plus.NodeID != ent.NodeID || de.Plus.Attr != ent.Attr) {
			s.Problems = append(s.Problems, fmt.Sprintf("readdirplus-lookup-differ %s: READDIRPLUS node %d %+v, LOOKUP node %d %+v", cp, de.Plus.NodeID, de.Plus.Attr, ent.NodeID, ent.Attr))
		}
		s.Tree[cp] = e
		d.fillNode(s, cp, ent.NodeID, e, o)
		skip := false
		for _, n := range o.SkipNames {
			if n == de.Name {
				skip = true
			}
		}
		if e.IsDir() && !skip {
			d.walkDir(s, cp, ent.NodeID, o, depth+1)
		}
	}
}
