//go:build verif

package layer

import (
	"time"

	"github.com/containerd/stargz-snapshotter/fs/config"
	"github.com/containerd/stargz-snapshotter/fs/reader"
	"github.com/containerd/stargz-snapshotter/fs/remote"
	"github.com/containerd/stargz-snapshotter/task"
	fusefs "github.com/hanwen/go-fuse/v2/fs"
	digest "github.com/opencontainers/go-digest"
	ocispec "github.com/opencontainers/image-spec/specs-go/v1"
)

// VerifNewLayerRoot builds the root node of a layer exactly as layer.RootNode
// does (newNode), without a Resolver: it is the lightest construction that runs
// the real node.go on a caller-supplied reader and blob.
func VerifNewLayerRoot(dgst digest.Digest, r reader.Reader, blob remote.Blob, baseInode uint32, opaque OverlayOpaqueType) (fusefs.InodeEmbedder, error) {
	return newNode(dgst, r, blob, baseInode, opaque, passThroughConfig{}, false)
}

// VerifNewLayer builds a real *layer (newLayer) over a caller-supplied blob and
// verifiable reader, the way Resolver.Resolve does after it has created them.
// The returned Layer serves Verify/SkipVerify/RootNode/Prefetch/BackgroundFetch
// with the production code.
func VerifNewLayer(desc ocispec.Descriptor, blob remote.Blob, vr *reader.VerifiableReader, btm *task.BackgroundTaskManager, cfg config.Config, opaque OverlayOpaqueType) Layer {
	return &layerRef{newLayer(&Resolver{
		prefetchTimeout:       time.Second,
		backgroundTaskManager: btm,
		config:                cfg,
		overlayOpaqueType:     opaque,
	}, desc, &blobRef{blob, func(bool) {}}, vr, passThroughConfig{}, false), func(bool) {}}
}

// VerifEntsCached reports whether the directory listing of the node is memoised.
func VerifEntsCached(n fusefs.InodeEmbedder) bool {
	nn, ok := n.(*node)
	if !ok {
		return false
	}
	nn.entsMu.Lock()
	defer nn.entsMu.Unlock()
	return nn.entsCached
}
