package memreg

import (
	"net/http"
	"strings"

	"github.com/containerd/containerd/v2/core/remotes/docker"
	"github.com/containerd/containerd/v2/pkg/reference"
	"github.com/containerd/stargz-snapshotter/fs/source"
)

// compatRT decorates replies of the registry with the headers a real registry
// sends and that some clients insist on, without changing what Registry itself
// does: blob/CDN bodies (200, 206 single range) get
// "Content-Type: application/octet-stream" when the reply has none (the remote
// fetcher of fs/remote parses the Content-Type of every 206 reply).
type compatRT struct{ g *Registry }

func (c compatRT) RoundTrip(req *http.Request) (*http.Response, error) {
	resp, err := c.g.RoundTrip(req)
	if err != nil || resp == nil {
		return resp, err
	}
	if (resp.StatusCode == http.StatusOK || resp.StatusCode == http.StatusPartialContent) && resp.Header.Get("Content-Type") == "" &&
		(strings.Contains(req.URL.Path, "/blobs/") || strings.HasPrefix(req.URL.Path, "/cdn/")) {
		resp.Header.Set("Content-Type", "application/octet-stream")
	}
	return resp, nil
}

// CompatHosts is Hosts with the reply decoration described at compatRT.
func (g *Registry) CompatHosts(header http.Header) source.RegistryHosts {
	return func(ref reference.Spec) ([]docker.RegistryHost, error) {
		return []docker.RegistryHost{{
			Client:       &http.Client{Transport: compatRT{g}},
			Host:         g.Host,
			Scheme:       "https",
			Path:         "/v2",
			Capabilities: docker.HostCapabilityPull | docker.HostCapabilityResolve,
			Header:       header,
		}}, nil
	}
}
