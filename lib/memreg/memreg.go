// Package memreg is an in-memory OCI registry + CDN served through an
// http.RoundTripper. Every reply shape is decided by a Script hook so that
// harnesses can enumerate server personalities and failures; every request is
// logged with host, method, path, headers and ranges.
package memreg

import (
	"bytes"
	"context"
	"fmt"
	"io"
	"mime/multipart"
	"net/http"
	"net/textproto"
	"sort"
	"strconv"
	"strings"
	"sync"

	"github.com/containerd/containerd/v2/core/remotes/docker"
	"github.com/containerd/containerd/v2/pkg/reference"
	"github.com/containerd/stargz-snapshotter/fs/source"
)

// Action is the shape of one reply.
type Action int

const (
	Perfect      Action = iota // 206 multipart for several ranges, 206 single part for one, 200 for no Range
	Squash                     // one 206 part covering the super-range of all requested ranges
	Whole                      // 200 with the whole body, ignoring Range
	Redirect                   // 307 to the CDN host (only meaningful for registry blob GETs)
	Forbidden                  // 403 (expired URL)
	BadRequest                 // 400 (multi-range not supported) — only applied to multi-range requests
	Transient                  // transport error
	ServerError                // 500
	NotFound                   // 404
	Unauthorized               // 401 with a Bearer challenge
	Truncated                  // 206 multipart cut after the first part's header
	Stall                      // harness-defined blocking (calls Registry.OnStall)
)

func (a Action) String() string {
	return [...]string{"perfect", "squash", "whole", "redirect", "403", "400", "transient", "500", "404", "401", "truncated", "stall"}[a]
}

// Req is one logged request.
type Req struct {
	N      int
	Host   string
	Method string
	Path   string
	Query  string
	Header http.Header
	Ranges [][2]int64
	Kind   string // "blob", "cdn", "manifest", "token", "other"
	Action Action
}

func (r Req) String() string {
	return fmt.Sprintf("#%d %s %s%s ranges=%v -> %s", r.N, r.Method, r.Host, r.Path, r.Ranges, r.Action)
}

// Registry is the fake.
type Registry struct {
	mu        sync.Mutex
	Host      string            // registry host name, e.g. "reg.test"
	CDNHost   string            // e.g. "cdn.test"
	blobs     map[string][]byte // digest string -> content
	manifests map[string][]byte // "<repo>:<ref>" -> manifest bytes (ref = tag or digest)
	mtypes    map[string]string
	Log       []Req
	n         int
	Down      bool // every request fails at transport level
	// Script decides the reply for a request; nil means Perfect.
	Script func(r *Req) Action
	// OnStall is called for Stall actions (it should block on something the harness controls).
	OnStall func(r *Req)
	// Token required for 401 flows.
	Token string
	// ReadSize > 0 makes every response body return at most that many bytes per Read
	// (a slow / fragmented network); 0 = whole body at once.
	ReadSize int
}

// New returns an empty registry.
func New() *Registry {
	return &Registry{Host: "reg.test", CDNHost: "cdn.test", blobs: map[string][]byte{}, manifests: map[string][]byte{}, mtypes: map[string]string{}}
}

// AddBlob registers content under its digest string.
func (g *Registry) AddBlob(dgst string, b []byte) {
	g.mu.Lock()
	g.blobs[dgst] = b
	g.mu.Unlock()
}

// SetBlob replaces content (used to serve altered bytes under the same digest).
func (g *Registry) SetBlob(dgst string, b []byte) { g.AddBlob(dgst, b) }

// AddManifest registers a manifest for repo under ref (tag or digest).
func (g *Registry) AddManifest(repo, ref, mediaType string, b []byte) {
	g.mu.Lock()
	g.manifests[repo+":"+ref] = b
	g.mtypes[repo+":"+ref] = mediaType
	g.mu.Unlock()
}

// Requests returns a copy of the log.
func (g *Registry) Requests() []Req {
	g.mu.Lock()
	defer g.mu.Unlock()
	return append([]Req(nil), g.Log...)
}

// Count returns the number of logged requests.
func (g *Registry) Count() int {
	g.mu.Lock()
	defer g.mu.Unlock()
	return len(g.Log)
}

// Hosts returns a RegistryHosts function pointing every ref at this registry
// with the given extra header (may be nil).
func (g *Registry) Hosts(header http.Header) source.RegistryHosts {
	return func(ref reference.Spec) ([]docker.RegistryHost, error) {
		return []docker.RegistryHost{{
			Client:       &http.Client{Transport: g},
			Host:         g.Host,
			Scheme:       "https",
			Path:         "/v2",
			Capabilities: docker.HostCapabilityPull | docker.HostCapabilityResolve,
			Header:       header,
		}}, nil
	}
}

func parseRanges(h string) [][2]int64 {
	if !strings.HasPrefix(h, "bytes=") {
		return nil
	}
	var out [][2]int64
	for _, p := range strings.Split(strings.TrimPrefix(h, "bytes="), ",") {
		p = strings.TrimSpace(p)
		if p == "" {
			continue
		}
		be := strings.SplitN(p, "-", 2)
		if len(be) != 2 {
			continue
		}
		b, err1 := strconv.ParseInt(be[0], 10, 64)
		e, err2 := strconv.ParseInt(be[1], 10, 64)
		if err1 != nil || err2 != nil {
			continue
		}
		out = append(out, [2]int64{b, e})
	}
	return out
}

type trickle struct {
	r io.Reader
	n int
}

func (t *trickle) Read(p []byte) (int, error) {
	if len(p) > t.n {
		p = p[:t.n]
	}
	return t.r.Read(p)
}

func resp(req *http.Request, code int, hdr http.Header, body []byte) *http.Response {
	if hdr == nil {
		hdr = http.Header{}
	}
	if g, ok := req.Context().Value(readSizeKey{}).(int); ok && g > 0 {
		return &http.Response{
			StatusCode: code, Status: fmt.Sprintf("%d %s", code, http.StatusText(code)),
			Proto: "HTTP/1.1", ProtoMajor: 1, ProtoMinor: 1,
			Header: hdr, Body: io.NopCloser(&trickle{bytes.NewReader(body), g}), ContentLength: int64(len(body)), Request: req,
		}
	}
	return &http.Response{
		StatusCode: code, Status: fmt.Sprintf("%d %s", code, http.StatusText(code)),
		Proto: "HTTP/1.1", ProtoMajor: 1, ProtoMinor: 1,
		Header: hdr, Body: io.NopCloser(bytes.NewReader(body)), ContentLength: int64(len(body)), Request: req,
	}
}

type readSizeKey struct{}

// RoundTrip implements http.RoundTripper.
func (g *Registry) RoundTrip(req *http.Request) (*http.Response, error) {
	if g.ReadSize > 0 {
		req = req.WithContext(context.WithValue(req.Context(), readSizeKey{}, g.ReadSize))
	}
	g.mu.Lock()
	g.n++
	r := Req{N: g.n, Host: req.URL.Host, Method: req.Method, Path: req.URL.Path, Query: req.URL.RawQuery, Header: req.Header.Clone(),
		Ranges: parseRanges(req.Header.Get("Range"))}
	var content []byte
	found := false
	switch {
	case req.URL.Host == g.CDNHost && strings.HasPrefix(req.URL.Path, "/cdn/"):
		r.Kind = "cdn"
		content, found = g.blobs[strings.TrimPrefix(req.URL.Path, "/cdn/")]
	case req.URL.Host == g.Host && strings.Contains(req.URL.Path, "/blobs/"):
		r.Kind = "blob"
		i := strings.LastIndex(req.URL.Path, "/blobs/")
		content, found = g.blobs[req.URL.Path[i+len("/blobs/"):]]
	case req.URL.Host == g.Host && strings.Contains(req.URL.Path, "/manifests/"):
		r.Kind = "manifest"
		i := strings.LastIndex(req.URL.Path, "/manifests/")
		repo := strings.TrimPrefix(req.URL.Path[:i], "/v2/")
		content, found = g.manifests[repo+":"+req.URL.Path[i+len("/manifests/"):]]
	case strings.HasPrefix(req.URL.Path, "/token"):
		r.Kind = "token"
	default:
		r.Kind = "other"
	}
	act := Perfect
	script, down := g.Script, g.Down
	g.mu.Unlock()
	if script != nil {
		act = script(&r)
	}
	r.Action = act
	g.mu.Lock()
	g.Log = append(g.Log, r)
	g.mu.Unlock()
	if down {
		return nil, fmt.Errorf("memreg: registry is down")
	}
	switch act {
	case Transient:
		return nil, fmt.Errorf("memreg: injected transport error")
	case ServerError:
		return resp(req, 500, nil, nil), nil
	case NotFound:
		return resp(req, 404, nil, nil), nil
	case Forbidden:
		return resp(req, 403, nil, nil), nil
	case Unauthorized:
		h := http.Header{}
		h.Set("WWW-Authenticate", fmt.Sprintf(`Bearer realm="https://%s/token",service="%s"`, g.Host, g.Host))
		return resp(req, 401, h, nil), nil
	case Stall:
		if g.OnStall != nil {
			g.OnStall(&r)
		}
		if err := req.Context().Err(); err != nil {
			return nil, err
		}
	}
	if r.Kind == "token" {
		h := http.Header{}
		h.Set("Content-Type", "application/json")
		return resp(req, 200, h, []byte(fmt.Sprintf(`{"token":%q,"access_token":%q}`, g.Token, g.Token))), nil
	}
	if r.Kind == "other" || !found {
		return resp(req, 404, nil, nil), nil
	}
	if r.Kind == "manifest" {
		h := http.Header{}
		g.mu.Lock()
		i := strings.LastIndex(req.URL.Path, "/manifests/")
		repo := strings.TrimPrefix(req.URL.Path[:i], "/v2/")
		h.Set("Content-Type", g.mtypes[repo+":"+req.URL.Path[i+len("/manifests/"):]])
		g.mu.Unlock()
		h.Set("Content-Length", strconv.Itoa(len(content)))
		if req.Method == "HEAD" {
			return resp(req, 200, h, nil), nil
		}
		return resp(req, 200, h, content), nil
	}
	if act == Redirect && r.Kind == "blob" {
		h := http.Header{}
		i := strings.LastIndex(req.URL.Path, "/blobs/")
		h.Set("Location", fmt.Sprintf("https://%s/cdn/%s", g.CDNHost, req.URL.Path[i+len("/blobs/"):]))
		return resp(req, 307, h, nil), nil
	}
	size := int64(len(content))
	if req.Method == "HEAD" {
		h := http.Header{}
		h.Set("Content-Length", strconv.FormatInt(size, 10))
		rs := resp(req, 200, h, nil)
		rs.ContentLength = size
		return rs, nil
	}
	if len(r.Ranges) == 0 || act == Whole {
		h := http.Header{}
		h.Set("Content-Length", strconv.FormatInt(size, 10))
		return resp(req, 200, h, content), nil
	}
	if act == BadRequest && len(r.Ranges) > 1 {
		return resp(req, 400, nil, nil), nil
	}
	// clamp ranges
	var rs [][2]int64
	for _, x := range r.Ranges {
		if x[0] >= size || x[0] > x[1] {
			continue
		}
		if x[1] >= size {
			x[1] = size - 1
		}
		rs = append(rs, x)
	}
	if len(rs) == 0 {
		h := http.Header{}
		h.Set("Content-Range", fmt.Sprintf("bytes */%d", size))
		return resp(req, 416, h, nil), nil
	}
	if act == Squash && len(rs) > 1 {
		sort.Slice(rs, func(i, j int) bool { return rs[i][0] < rs[j][0] })
		lo, hi := rs[0][0], rs[0][1]
		for _, x := range rs {
			if x[1] > hi {
				hi = x[1]
			}
		}
		rs = [][2]int64{{lo, hi}}
	}
	if len(rs) == 1 {
		h := http.Header{}
		h.Set("Content-Range", fmt.Sprintf("bytes %d-%d/%d", rs[0][0], rs[0][1], size))
		h.Set("Content-Type", "application/octet-stream")
		body := content[rs[0][0] : rs[0][1]+1]
		h.Set("Content-Length", strconv.Itoa(len(body)))
		return resp(req, 206, h, body), nil
	}
	var buf bytes.Buffer
	mw := multipart.NewWriter(&buf)
	mw.SetBoundary("memregboundary7d1f")
	for i, x := range rs {
		ph := textproto.MIMEHeader{}
		ph.Set("Content-Range", fmt.Sprintf("bytes %d-%d/%d", x[0], x[1], size))
		pw, _ := mw.CreatePart(ph)
		if act == Truncated && i == 0 {
			pw.Write(content[x[0] : x[0]+(x[1]-x[0]+1)/2])
			break
		}
		pw.Write(content[x[0] : x[1]+1])
	}
	if act != Truncated {
		mw.Close()
	}
	h := http.Header{}
	h.Set("Content-Type", "multipart/byteranges; boundary="+mw.Boundary())
	return resp(req, 206, h, buf.Bytes()), nil
}
