// Package recfs is a recording fake of snapshot.FileSystem: a mount table
// (mountpoint -> mounts with their labels), a call log and per-call scripted
// answers (ok / fail) supplied by a search. It never touches the kernel mount
// table; the only file-system access is os.Stat of the mountpoint, used to
// (1) refuse mounting on a directory that does not exist, like a real mount
// would, and (2) record whether the directory still exists when a mount is
// taken down.
package recfs

import (
	"context"
	"fmt"
	"os"
	"path/filepath"
	"sort"
	"strings"
	"sync"
)

// Call is one recorded backend call.
type Call struct {
	Seq        int               // global sequence number
	Phase      string            // label given to Begin (the operation during which the call was made)
	Method     string            // Mount | Check | Unmount
	Mountpoint string            // absolute path as passed by the caller
	Rel        string            // normalised path relative to Root (temp names collapsed)
	Labels     map[string]string // private copy (nil for Unmount)
	Occ        int               // n-th call of (Method, Rel) since Begin
	Scripted   bool              // the script asked this call to fail
	Err        string            // "" = answered ok
	Live       bool              // Unmount/Check: mountpoint had a live mount when called
	DirExists  bool              // mountpoint directory existed when called
	Note       string            // set by hooks (e.g. ordering verdicts)
}

// Key identifies the call for scripting: "Method|rel|occ".
func (c *Call) Key() string { return fmt.Sprintf("%s|%s|%d", c.Method, c.Rel, c.Occ) }

// OK reports whether the call was answered without error.
func (c *Call) OK() bool { return c.Err == "" }

// MountRec is one live mount.
type MountRec struct {
	Labels        map[string]string
	Seq           int  // Seq of the Mount call
	UnmountFailed bool // an Unmount was attempted and scripted to fail; the mount stayed
}

// FS implements snapshot.FileSystem.
type FS struct {
	Root string // snapshotter root; used to relativise mountpoints

	mu     sync.Mutex
	table  map[string][]MountRec
	log    []Call
	phase  string
	from   int // index in log where the current phase started
	script map[string]bool
	occ    map[string]int
	used   map[string]bool

	// Before is called (outside the lock) with the call about to take effect,
	// After once its effect on the table is done. Both optional.
	Before func(c *Call)
	After  func(c *Call)
}

// New returns an empty fake for the snapshotter rooted at root.
func New(root string) *FS {
	return &FS{Root: root, table: map[string][]MountRec{}, script: map[string]bool{}, occ: map[string]int{}, used: map[string]bool{}}
}

// Rel normalises a mountpoint: relative to Root, and "new-<random>" temp
// directory names collapsed to "new-*".
func (f *FS) Rel(mp string) string {
	r, err := filepath.Rel(f.Root, mp)
	if err != nil {
		r = mp
	}
	parts := strings.Split(r, string(filepath.Separator))
	for i, p := range parts {
		if strings.HasPrefix(p, "new-") {
			parts[i] = "new-*"
		}
	}
	return strings.Join(parts, "/")
}

// Begin starts a phase: occurrence counters are reset and the given call keys
// ("Method|rel|occ") are scripted to fail.
func (f *FS) Begin(phase string, fails []string) {
	f.mu.Lock()
	defer f.mu.Unlock()
	f.phase = phase
	f.from = len(f.log)
	f.occ = map[string]int{}
	f.script = map[string]bool{}
	f.used = map[string]bool{}
	for _, k := range fails {
		f.script[k] = true
	}
}

// End finishes the phase and returns its calls (copies) plus the scripted
// failures that were never consumed. Runs of consecutive Check calls (which the
// snapshotter issues concurrently) are put in a canonical order.
func (f *FS) End() (calls []Call, unused []string) {
	f.mu.Lock()
	defer f.mu.Unlock()
	calls = append(calls, f.log[f.from:]...)
	for i := 0; i < len(calls); {
		j := i
		for j < len(calls) && calls[j].Method == "Check" {
			j++
		}
		if j > i+1 {
			seg := calls[i:j]
			sort.SliceStable(seg, func(a, b int) bool { return seg[a].Key() < seg[b].Key() })
		}
		if j == i {
			j++
		}
		i = j
	}
	for k := range f.script {
		if !f.used[k] {
			unused = append(unused, k)
		}
	}
	sort.Strings(unused)
	f.script = map[string]bool{}
	f.phase = ""
	f.from = len(f.log)
	return calls, unused
}

func copyLabels(l map[string]string) map[string]string {
	if l == nil {
		return nil
	}
	out := make(map[string]string, len(l))
	for k, v := range l {
		out[k] = v
	}
	return out
}

func dirExists(p string) bool {
	st, err := os.Stat(p)
	return err == nil && st.IsDir()
}

// enter records the start of a call and decides the scripted answer.
func (f *FS) enter(method, mp string, labels map[string]string) *Call {
	f.mu.Lock()
	rel := f.Rel(mp)
	ok := method + "|" + rel
	c := &Call{Seq: len(f.log), Phase: f.phase, Method: method, Mountpoint: mp, Rel: rel, Labels: copyLabels(labels), Occ: f.occ[ok]}
	f.occ[ok]++
	if f.script[c.Key()] {
		c.Scripted = true
		f.used[c.Key()] = true
	}
	c.Live = len(f.table[mp]) > 0
	f.log = append(f.log, *c)
	f.mu.Unlock()
	c.DirExists = dirExists(mp)
	return c
}

func (f *FS) leave(c *Call) {
	f.mu.Lock()
	f.log[c.Seq] = *c
	f.mu.Unlock()
}

// Mount implements snapshot.FileSystem.
func (f *FS) Mount(ctx context.Context, mountpoint string, labels map[string]string) error {
	c := f.enter("Mount", mountpoint, labels)
	if f.Before != nil {
		f.Before(c)
	}
	var err error
	switch {
	case c.Scripted:
		err = fmt.Errorf("recfs: scripted Mount failure at %s", c.Rel)
	case !c.DirExists:
		err = fmt.Errorf("recfs: mountpoint %s does not exist", c.Rel)
	default:
		f.mu.Lock()
		f.table[mountpoint] = append(f.table[mountpoint], MountRec{Labels: copyLabels(labels), Seq: c.Seq})
		f.mu.Unlock()
	}
	if err != nil {
		c.Err = err.Error()
	}
	f.leave(c)
	if f.After != nil {
		f.After(c)
	}
	return err
}

// Check implements snapshot.FileSystem.
func (f *FS) Check(ctx context.Context, mountpoint string, labels map[string]string) error {
	c := f.enter("Check", mountpoint, labels)
	var err error
	switch {
	case c.Scripted:
		err = fmt.Errorf("recfs: scripted Check failure at %s", c.Rel)
	case !c.Live:
		err = fmt.Errorf("recfs: layer not registered at %s", c.Rel)
	}
	if err != nil {
		c.Err = err.Error()
	}
	f.leave(c)
	return err
}

// Unmount implements snapshot.FileSystem.
func (f *FS) Unmount(ctx context.Context, mountpoint string) error {
	c := f.enter("Unmount", mountpoint, nil)
	if f.Before != nil {
		f.Before(c)
	}
	var err error
	switch {
	case !c.Live:
		err = fmt.Errorf("recfs: %s isn't a mountpoint", c.Rel)
	case c.Scripted:
		err = fmt.Errorf("recfs: scripted Unmount failure at %s", c.Rel)
		f.mu.Lock()
		recs := f.table[mountpoint]
		recs[len(recs)-1].UnmountFailed = true
		f.mu.Unlock()
	default:
		f.mu.Lock()
		recs := f.table[mountpoint]
		if len(recs) <= 1 {
			delete(f.table, mountpoint)
		} else {
			f.table[mountpoint] = recs[:len(recs)-1]
		}
		f.mu.Unlock()
	}
	if err != nil {
		c.Err = err.Error()
	}
	f.leave(c)
	if f.After != nil {
		f.After(c)
	}
	return err
}

// Table returns a copy of the live mount table.
func (f *FS) Table() map[string][]MountRec {
	f.mu.Lock()
	defer f.mu.Unlock()
	out := make(map[string][]MountRec, len(f.table))
	for k, v := range f.table {
		cp := make([]MountRec, len(v))
		for i, r := range v {
			cp[i] = MountRec{Labels: copyLabels(r.Labels), Seq: r.Seq, UnmountFailed: r.UnmountFailed}
		}
		out[k] = cp
	}
	return out
}

// Live returns the number of live mounts on mountpoint.
func (f *FS) Live(mountpoint string) int {
	f.mu.Lock()
	defer f.mu.Unlock()
	return len(f.table[mountpoint])
}

// Log returns a copy of the complete call log.
func (f *FS) Log() []Call {
	f.mu.Lock()
	defer f.mu.Unlock()
	return append([]Call(nil), f.log...)
}

// LabelString renders labels canonically.
func LabelString(l map[string]string) string {
	keys := make([]string, 0, len(l))
	for k := range l {
		keys = append(keys, k)
	}
	sort.Strings(keys)
	var sb strings.Builder
	for i, k := range keys {
		if i > 0 {
			sb.WriteByte(',')
		}
		sb.WriteString(k)
		sb.WriteByte('=')
		sb.WriteString(l[k])
	}
	return sb.String()
}
