package reftar

import (
	"fmt"
	"path"
	"sort"
	"strings"
)

// Names of the OCI image-layer specification.
const (
	WhiteoutPrefix = ".wh."
	OpaqueMarker   = ".wh..wh..opq"
)

// Overlayfs opaque xattr names.
const (
	XattrOpaqueTrusted = "trusted.overlay.opaque"
	XattrOpaqueUser    = "user.overlay.opaque"
)

// LayerInfo is what the reference learned about one layer tar besides its tree.
type LayerInfo struct {
	// EmptyWhiteout: the layer has a member whose base name is exactly ".wh." (a whiteout
	// of the empty name). The OCI specification gives it no meaning (containerd's
	// applier rejects the archive); the reference gives it no effect and never shows it.
	EmptyWhiteout bool
	// WhiteoutOfDirInSameLayer: the layer carries a whiteout ".wh.X" and a directory X
	// (explicit or implied) side by side; a plain overlayfs lower directory cannot
	// express that, the property excludes these layers.
	WhiteoutOfDirInSameLayer bool
}

// splitLayer separates the members of one layer into whiteouts (paths to delete),
// opaque directories and ordinary members.
func splitLayer(ents []RawEntry) (whiteouts, opaques []string, rest []RawEntry, info LayerInfo) {
	for _, re := range ents {
		p := Clean(re.Hdr.Name)
		base := path.Base(p)
		if p == "/" || !strings.HasPrefix(base, WhiteoutPrefix) {
			rest = append(rest, re)
			continue
		}
		dir := Parent(p)
		switch {
		case base == OpaqueMarker:
			opaques = append(opaques, dir)
		case base == WhiteoutPrefix:
			info.EmptyWhiteout = true
		default:
			whiteouts = append(whiteouts, Join(dir, base[len(WhiteoutPrefix):]))
		}
	}
	return
}

// ApplyLayers applies OCI layer tars bottom-up (layers[0] is the base) and returns
// the final root filesystem, following the OCI image-layer specification:
//
//   - a member ".wh.X" deletes X (and its subtree) as left by the LOWER layers; members
//     of the same layer are not affected, whatever the member order ("Whiteout files
//     MUST only apply to resources in lower/parent layers");
//   - a member ".wh..wh..opq" in directory D deletes all children of D left by the lower
//     layers; D itself exists afterwards;
//   - the directory that holds a whiteout or a marker exists afterwards (implicitly
//     created if needed);
//   - marker and whiteout files themselves never materialise;
//   - every other member is extracted as by FromTar on top of the result (a
//     non-directory replaces a directory subtree and vice versa, directories merge).
//
// opaqueXattrs (may be nil) are the overlay opaque xattr names the stacking honours: a directory
// member whose own tar header carries one of them with the value "y" (a layer made by archiving an
// overlayfs upper directory with its xattrs) is opaque exactly like a directory holding the marker.
func ApplyLayers(layers [][]byte, opaqueXattrs []string) (Tree, []LayerInfo, error) {
	b := newBuilder()
	var infos []LayerInfo
	for li, lt := range layers {
		ents, err := Parse(lt)
		if err != nil {
			return nil, nil, fmt.Errorf("layer %d: %w", li, err)
		}
		whs, opqs, rest, info := splitLayer(ents)
		for _, re := range rest {
			if re.Hdr.Typeflag != '5' {
				continue
			}
			for _, x := range opaqueXattrs {
				if re.Hdr.PAXRecords["SCHILY.xattr."+x] == "y" {
					opqs = append(opqs, Clean(re.Hdr.Name))
					break
				}
			}
		}
		for _, w := range whs {
			b.removeTree(w)
		}
		for _, d := range opqs {
			for q := range b.t {
				if q != d && (d == "/" || strings.HasPrefix(q, d+"/")) {
					delete(b.t, q)
				}
			}
		}
		for _, re := range rest {
			if err := b.add(re.Hdr, re.Data); err != nil {
				return nil, nil, fmt.Errorf("layer %d: %w", li, err)
			}
		}
		// directories holding whiteouts / markers exist
		for _, w := range whs {
			if err := b.mkParents(w); err != nil {
				return nil, nil, fmt.Errorf("layer %d: %w", li, err)
			}
		}
		for _, d := range opqs {
			if err := b.mkParents(Join(d, "x")); err != nil {
				return nil, nil, fmt.Errorf("layer %d: %w", li, err)
			}
		}
		for _, re := range ents {
			p := Clean(re.Hdr.Name)
			if path.Base(p) == WhiteoutPrefix && p != "/" {
				if err := b.mkParents(p); err != nil {
					return nil, nil, fmt.Errorf("layer %d: %w", li, err)
				}
			}
		}
		// exclusion bookkeeping
		for _, w := range whs {
			for _, re := range rest {
				p := Clean(re.Hdr.Name)
				if (p == w && re.Hdr.Typeflag == '5') || strings.HasPrefix(p, w+"/") {
					info.WhiteoutOfDirInSameLayer = true
				}
			}
			for _, w2 := range whs {
				if strings.HasPrefix(w2, w+"/") {
					info.WhiteoutOfDirInSameLayer = true
				}
			}
			for _, d := range opqs {
				if d == w || strings.HasPrefix(d, w+"/") {
					info.WhiteoutOfDirInSameLayer = true
				}
			}
		}
		infos = append(infos, info)
	}
	return b.finish(), infos, nil
}

// Translate returns the overlayfs lower directory that represents ONE OCI layer,
// as the property statement defines it:
//
//   - ".wh.X" appears as a whiteout (character device 0/0, Entry.Whiteout) named X,
//     unless the same directory also carries a real X;
//   - ".wh..wh..opq" marks its directory opaque (Entry.Opaque; the caller turns that
//     into the xattr names of the configured mode);
//   - marker files, whiteout files, the reserved root names (prefetch landmarks, TOC)
//     never appear;
//   - a whiteout of the empty name (".wh.") is not a name: nothing appears for it.
func Translate(layerTar []byte) (Tree, LayerInfo, error) {
	ents, err := Parse(layerTar)
	if err != nil {
		return nil, LayerInfo{}, err
	}
	whs, opqs, rest, info := splitLayer(ents)
	b := newBuilder()
	for _, re := range rest {
		if err := b.add(re.Hdr, re.Data); err != nil {
			return nil, info, err
		}
	}
	for _, d := range opqs {
		if err := b.mkParents(Join(d, "x")); err != nil {
			return nil, info, err
		}
		b.t[d].Opaque = true
	}
	for _, re := range ents {
		p := Clean(re.Hdr.Name)
		if path.Base(p) == WhiteoutPrefix && p != "/" {
			if err := b.mkParents(p); err != nil {
				return nil, info, err
			}
		}
	}
	for _, w := range whs {
		if err := b.mkParents(w); err != nil {
			return nil, info, err
		}
		if _, real := b.t[w]; real {
			continue
		}
		b.t[w] = &Entry{Mode: SIFCHR, Rdev: 0, Whiteout: true, Obj: b.obj()}
	}
	return b.finish(), info, nil
}

// MergeLower merges lower-directory trees (lowers[0] is the bottom) by the lookup
// rules of overlayfs (Documentation/filesystems/overlayfs.rst):
//
//   - a name is looked up from the top layer down; a whiteout (character device 0/0)
//     ends the search and hides everything below; a non-directory ends the search
//     and is the result if nothing above was found;
//   - directories found on the way are merged, the topmost one supplies the
//     attributes; a directory carrying one of opaqueXattrs = "y" ends the search;
//   - whiteouts and the overlay xattrs are not visible in the merged view.
//
// The opaque xattr is honoured on the root of a layer as well (so that an OCI
// ".wh..wh..opq" at the root of a layer hides the lower layers).
func MergeLower(lowers []Tree, opaqueXattrs []string) Tree {
	out := Tree{}
	type src struct {
		t Tree
		p string
	}
	isOpaque := func(e *Entry) bool {
		for _, x := range opaqueXattrs {
			if e.Xattrs[x] == "y" {
				return true
			}
		}
		return false
	}
	strip := func(e *Entry) *Entry {
		c := *e
		if len(e.Xattrs) > 0 {
			c.Xattrs = map[string]string{}
			for k, v := range e.Xattrs {
				if k != XattrOpaqueTrusted && k != XattrOpaqueUser {
					c.Xattrs[k] = v
				}
			}
			if len(c.Xattrs) == 0 {
				c.Xattrs = nil
			}
		}
		return &c
	}
	var merge func(outPath string, stack []src)
	merge = func(outPath string, stack []src) {
		names := map[string]bool{}
		for _, s := range stack {
			for _, n := range s.t.Children(s.p) {
				names[n] = true
			}
		}
		var sorted []string
		for n := range names {
			sorted = append(sorted, n)
		}
		sort.Strings(sorted)
		for _, n := range sorted {
			var dirs []src
			var result *Entry
			for _, s := range stack {
				cp := Join(s.p, n)
				e, ok := s.t[cp]
				if !ok {
					continue
				}
				if e.IsWhiteoutDev() {
					break
				}
				if !e.IsDir() {
					if len(dirs) == 0 {
						result = e
					}
					break
				}
				dirs = append(dirs, src{s.t, cp})
				if isOpaque(e) {
					break
				}
			}
			op := Join(outPath, n)
			switch {
			case result != nil:
				out[op] = strip(result)
			case len(dirs) > 0:
				out[op] = strip(dirs[0].t[dirs[0].p])
				merge(op, dirs)
			}
		}
	}
	var stack []src
	for i := len(lowers) - 1; i >= 0; i-- {
		r, ok := lowers[i]["/"]
		if !ok {
			continue
		}
		stack = append(stack, src{lowers[i], "/"})
		if isOpaque(r) {
			break
		}
	}
	if len(stack) > 0 {
		out["/"] = strip(stack[0].t["/"])
		merge("/", stack)
	}
	return out
}
