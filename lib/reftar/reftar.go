// Package reftar is the reference model of the filesystem views checked by C02
// and C07. It is written against archive/tar, the OCI image-layer specification
// and the overlayfs documentation only; it does not import any package of the
// system under test.
//
//   - FromTar: tar archive -> tree snapshot (what extracting the archive yields).
//   - ApplyLayers (refoverlay.go): stack of OCI layer tars -> final rootfs.
//   - Translate (refoverlay.go): one OCI layer tar -> the overlayfs lower directory
//     that represents it (whiteout devices, opaque flag, hidden reserved names).
//   - MergeLower (refoverlay.go): stack of lower-directory trees -> merged rootfs by
//     overlayfs lookup rules.
//
// Rules that the property statements do not dictate and that are therefore
// taken from the builder / runtime (estargz/build.go importTar, estargz.go
// cleanEntryName+initFields, docs/estargz.md) are marked IMPL-RULE below; the
// checks mask or relax exactly these points.
package reftar

import (
	"archive/tar"
	"bytes"
	"fmt"
	"io"
	"path"
	"sort"
	"strings"
)

// File type bits of st_mode.
const (
	SIFMT   = 0o170000
	SIFREG  = 0o100000
	SIFDIR  = 0o040000
	SIFLNK  = 0o120000
	SIFCHR  = 0o020000
	SIFBLK  = 0o060000
	SIFIFO  = 0o010000
	SIFSOCK = 0o140000
)

// Entry is one node of a tree snapshot. The same shape is produced by the
// reference (FromTar, ApplyLayers, ...) and by the FUSE driver (fusedrv.Walk).
type Entry struct {
	Mode    uint32 // st_mode: type bits | permission bits | suid/sgid/sticky
	Size    int64
	UID     uint32
	GID     uint32
	Mtime   int64 // unix seconds
	MtimeNs uint32
	Rdev    uint32 // FUSE/new_encode_dev encoding of (major, minor)
	Nlink   uint32
	Xattrs  map[string]string
	Link    string // symlink target
	Content []byte // regular files

	// Ino is the inode number reported by the implementation (0 in reference trees).
	Ino uint64
	// Obj is the identity of the object in reference trees: two paths with the
	// same Obj are hard links of one inode (0 in served trees).
	Obj int

	// Implicit marks a reference directory that no tar entry declares (created as a
	// parent of another entry). Its attributes are IMPL-RULE (0755 root:root).
	Implicit bool
	// Opaque marks a reference directory that carries an opaque marker (Translate only).
	Opaque bool
	// Whiteout marks a reference whiteout device produced by Translate.
	Whiteout bool

	// DirentType / DirentIno are what the directory listing said about this entry
	// (served trees only); DirentType holds S_IF* bits.
	DirentType uint32
	DirentIno  uint64
	Listed     bool
}

// Tree maps an absolute cleaned path ("/" is the root, "/d/a") to its entry.
type Tree map[string]*Entry

// IsDir etc.
func (e *Entry) IsDir() bool { return e.Mode&SIFMT == SIFDIR }
func (e *Entry) IsReg() bool { return e.Mode&SIFMT == SIFREG }
func (e *Entry) IsLnk() bool { return e.Mode&SIFMT == SIFLNK }

// IsWhiteoutDev reports the overlayfs whiteout: a character device 0/0.
func (e *Entry) IsWhiteoutDev() bool { return e.Mode&SIFMT == SIFCHR && e.Rdev == 0 }

// TypeName names the file type.
func TypeName(mode uint32) string {
	switch mode & SIFMT {
	case SIFREG:
		return "reg"
	case SIFDIR:
		return "dir"
	case SIFLNK:
		return "symlink"
	case SIFCHR:
		return "char"
	case SIFBLK:
		return "block"
	case SIFIFO:
		return "fifo"
	case SIFSOCK:
		return "sock"
	}
	return fmt.Sprintf("type%o", mode&SIFMT)
}

// Clean maps a tar entry name to the absolute path it denotes.
//
// IMPL-RULE (docs/estargz.md "name", estargz.go cleanEntryName): leading "./",
// "../" and "/" are dropped and the rest is path-cleaned relative to the root, so
// "a", "./a", "/a", "../a" and "a/" all denote "/a" and "./" denotes the root.
func Clean(name string) string { return path.Clean("/" + name) }

// Join appends a base name to a tree path.
func Join(dir, base string) string {
	if dir == "/" {
		return "/" + base
	}
	return dir + "/" + base
}

// Parent returns the parent path ("/" for "/" itself).
func Parent(p string) string {
	if p == "/" {
		return "/"
	}
	d := path.Dir(p)
	return d
}

// EncodeDev is the kernel's new_encode_dev(), the encoding FUSE uses for rdev.
func EncodeDev(major, minor uint32) uint32 {
	return (minor & 0xff) | (major << 8) | ((minor &^ 0xff) << 12)
}

// Reserved names of the eStargz format that are never part of the served view
// (docs/estargz.md: TOC entry, prefetch landmarks). IMPL-RULE: an input tar entry
// with one of these names at the root is dropped by the builder.
var ReservedRootNames = []string{"stargz.index.json", ".prefetch.landmark", ".no.prefetch.landmark"}

func isReservedRoot(p string) bool {
	for _, r := range ReservedRootNames {
		if p == "/"+r {
			return true
		}
	}
	return false
}

// InvalidError says that the archive is not extractable (the reference refuses it;
// the checks skip such inputs).
type InvalidError struct{ Why string }

func (e *InvalidError) Error() string { return "reftar: invalid archive: " + e.Why }

// RawEntry is one parsed tar member.
type RawEntry struct {
	Hdr  *tar.Header
	Data []byte
}

// Parse reads all members with archive/tar.
func Parse(b []byte) ([]RawEntry, error) {
	tr := tar.NewReader(bytes.NewReader(b))
	var out []RawEntry
	for {
		h, err := tr.Next()
		if err == io.EOF {
			return out, nil
		}
		if err != nil {
			return nil, err
		}
		d, err := io.ReadAll(tr)
		if err != nil {
			return nil, err
		}
		out = append(out, RawEntry{h, d})
	}
}

// builder accumulates a tree while tar members are applied in order.
type builder struct {
	t       Tree
	nextObj int
}

func newBuilder() *builder {
	b := &builder{t: Tree{}}
	b.t["/"] = &Entry{Mode: SIFDIR | 0o755, Implicit: true, Obj: b.obj()}
	return b
}

func (b *builder) obj() int { b.nextObj++; return b.nextObj }

// mkParents creates missing ancestors of p as implicit directories.
func (b *builder) mkParents(p string) error {
	if p == "/" {
		return nil
	}
	par := Parent(p)
	if e, ok := b.t[par]; ok {
		if !e.IsDir() {
			return &InvalidError{fmt.Sprintf("parent %q of %q is not a directory", par, p)}
		}
		return nil
	}
	if err := b.mkParents(par); err != nil {
		return err
	}
	// IMPL-RULE: attributes of a directory that no entry declares (0755, root, zero mtime).
	b.t[par] = &Entry{Mode: SIFDIR | 0o755, Implicit: true, Obj: b.obj()}
	return nil
}

// removeTree removes p and everything below it.
func (b *builder) removeTree(p string) {
	for q := range b.t {
		if q == p || strings.HasPrefix(q, p+"/") {
			delete(b.t, q)
		}
	}
}

func entryFromHeader(h *tar.Header, data []byte) (*Entry, error) {
	e := &Entry{UID: uint32(h.Uid), GID: uint32(h.Gid)}
	// IMPL-RULE: the TOC keeps whole seconds (RFC 3339 "modtime"); sub-second parts of
	// PAX mtimes are not part of the compared view.
	if !h.ModTime.IsZero() {
		e.Mtime = h.ModTime.Unix()
	}
	perm := uint32(h.Mode) & 0o7777
	switch h.Typeflag {
	case tar.TypeReg:
		e.Mode = SIFREG | perm
		e.Content = data
		e.Size = int64(len(data))
	case tar.TypeDir:
		e.Mode = SIFDIR | perm
	case tar.TypeSymlink:
		e.Mode = SIFLNK | perm
		e.Link = h.Linkname
		e.Size = int64(len(h.Linkname))
	case tar.TypeChar:
		e.Mode = SIFCHR | perm
		e.Rdev = EncodeDev(uint32(h.Devmajor), uint32(h.Devminor))
	case tar.TypeBlock:
		e.Mode = SIFBLK | perm
		e.Rdev = EncodeDev(uint32(h.Devmajor), uint32(h.Devminor))
	case tar.TypeFifo:
		e.Mode = SIFIFO | perm
	default:
		return nil, &InvalidError{fmt.Sprintf("unsupported type %q of %q", h.Typeflag, h.Name)}
	}
	for k, v := range h.PAXRecords {
		if strings.HasPrefix(k, "SCHILY.xattr.") {
			if e.Xattrs == nil {
				e.Xattrs = map[string]string{}
			}
			e.Xattrs[strings.TrimPrefix(k, "SCHILY.xattr.")] = v
		}
	}
	return e, nil
}

// add applies one non-whiteout member.
func (b *builder) add(h *tar.Header, data []byte) error {
	p := Clean(h.Name)
	if isReservedRoot(p) {
		return nil
	}
	if h.Typeflag == tar.TypeLink {
		tp := Clean(h.Linkname)
		te, ok := b.t[tp]
		if !ok {
			return &InvalidError{fmt.Sprintf("hard link %q to %q which does not exist (yet)", h.Name, h.Linkname)}
		}
		if te.IsDir() {
			return &InvalidError{fmt.Sprintf("hard link %q to directory %q", h.Name, h.Linkname)}
		}
		if tp == p {
			return &InvalidError{fmt.Sprintf("hard link %q to itself", h.Name)}
		}
		if p == "/" {
			return &InvalidError{"hard link replaces the root"}
		}
		if err := b.mkParents(p); err != nil {
			return err
		}
		if old, ok := b.t[p]; ok && old.IsDir() {
			b.removeTree(p)
		}
		// the path becomes another name of the target's inode: the *Entry is shared
		b.t[p] = te
		return nil
	}
	e, err := entryFromHeader(h, data)
	if err != nil {
		return err
	}
	if p == "/" {
		if !e.IsDir() {
			return &InvalidError{"non-directory entry for the root"}
		}
		old := b.t["/"]
		e.Obj = old.Obj
		b.t["/"] = e
		return nil
	}
	if err := b.mkParents(p); err != nil {
		return err
	}
	if old, ok := b.t[p]; ok {
		// last duplicate wins
		if old.IsDir() && e.IsDir() {
			e.Obj = old.Obj // same directory, new attributes, children stay
			b.t[p] = e
			return nil
		}
		if old.IsDir() {
			b.removeTree(p)
		}
	}
	e.Obj = b.obj()
	b.t[p] = e
	return nil
}

// finish computes link counts and splits shared *Entry values into per-path copies.
func (b *builder) finish() Tree {
	names := map[*Entry]uint32{}
	for _, e := range b.t {
		names[e]++
	}
	subdirs := map[string]uint32{}
	for p, e := range b.t {
		if p != "/" && e.IsDir() {
			subdirs[Parent(p)]++
		}
	}
	out := Tree{}
	for p, e := range b.t {
		c := *e
		if e.IsDir() {
			c.Nlink = 2 + subdirs[p] // ".", the name in the parent, ".." of each subdirectory
		} else {
			c.Nlink = names[e]
		}
		out[p] = &c
	}
	return out
}

// FromTar returns what extracting the archive into an empty directory yields.
//
//   - names are cleaned with Clean (IMPL-RULE above);
//   - a later member replaces an earlier member of the same path (a directory
//     replacing a directory keeps the children; anything else replaces the subtree);
//   - missing parents are created implicitly;
//   - a hard link must name an existing non-directory (as tar extraction requires);
//     it shares the inode (same Obj, same content) and raises Nlink of all its names;
//   - a directory has Nlink 2 + number of sub-directories;
//   - reserved eStargz names at the root are dropped.
func FromTar(tarBytes []byte) (Tree, error) {
	ents, err := Parse(tarBytes)
	if err != nil {
		return nil, err
	}
	b := newBuilder()
	for _, re := range ents {
		if err := b.add(re.Hdr, re.Data); err != nil {
			return nil, err
		}
	}
	return b.finish(), nil
}

// Paths returns the sorted paths of a tree.
func (t Tree) Paths() []string {
	var ps []string
	for p := range t {
		ps = append(ps, p)
	}
	sort.Strings(ps)
	return ps
}

// Children returns the sorted base names of the children of dir.
func (t Tree) Children(dir string) []string {
	var out []string
	for p := range t {
		if p != "/" && Parent(p) == dir {
			out = append(out, path.Base(p))
		}
	}
	sort.Strings(out)
	return out
}

// Describe renders a tree compactly.
func (t Tree) Describe() string {
	var s []string
	for _, p := range t.Paths() {
		e := t[p]
		d := p + ":" + TypeName(e.Mode)
		switch {
		case e.IsReg():
			d += fmt.Sprintf("(%d)", len(e.Content))
		case e.IsLnk():
			d += "->" + e.Link
		case e.Mode&SIFMT == SIFCHR || e.Mode&SIFMT == SIFBLK:
			d += fmt.Sprintf("(%#x)", e.Rdev)
		}
		if e.Opaque {
			d += "[opaque]"
		}
		s = append(s, d)
	}
	return "{" + strings.Join(s, " ") + "}"
}

// Difference is one disagreement between a wanted and an observed tree.
type Difference struct {
	Class string // stable class: missing, unexpected, type, content, size, mode, owner, mtime, rdev, nlink, xattrs, link, hardlink-identity
	Path  string
	Want  string
	Got   string
}

func (d Difference) String() string {
	return fmt.Sprintf("%s at %s: want %s, got %s", d.Class, d.Path, d.Want, d.Got)
}

// CmpOpts selects what Diff compares.
type CmpOpts struct {
	Attrs        bool // mode bits, uid/gid, mtime, xattrs, size of non-directories
	DirAttrs     bool // the same for directories that the reference declares explicitly (never for Implicit ones)
	Nlink        bool // link counts of non-directories
	DirNlink     bool // link counts of directories
	HardlinkSets bool // paths share an inode exactly when the reference says so (want.Obj vs got.Ino)
	// IgnoreXattr drops these xattr names from both sides before comparing.
	IgnoreXattr []string
	// Skip ignores these paths (and everything below them) on both sides.
	Skip []string
}

func skipped(p string, skip []string) bool {
	for _, s := range skip {
		if p == s || strings.HasPrefix(p, s+"/") {
			return true
		}
	}
	return false
}

func xattrString(m map[string]string, ignore []string) string {
	var ks []string
	for k := range m {
		ig := false
		for _, i := range ignore {
			if i == k {
				ig = true
			}
		}
		if !ig {
			ks = append(ks, k)
		}
	}
	sort.Strings(ks)
	var s []string
	for _, k := range ks {
		s = append(s, fmt.Sprintf("%s=%q", k, m[k]))
	}
	return "{" + strings.Join(s, ",") + "}"
}

func clip(b []byte) string {
	if len(b) > 48 {
		return fmt.Sprintf("%q...(%d bytes)", b[:48], len(b))
	}
	return fmt.Sprintf("%q", b)
}

// Diff compares an observed tree with the wanted one; structure, file type,
// content, symlink target and device number are always compared.
func Diff(want, got Tree, o CmpOpts) []Difference {
	var out []Difference
	add := func(c, p, w, g string) { out = append(out, Difference{c, p, w, g}) }
	for _, p := range want.Paths() {
		if skipped(p, o.Skip) {
			continue
		}
		w := want[p]
		g, ok := got[p]
		if !ok {
			add("missing", p, TypeName(w.Mode), "no such entry")
			continue
		}
		if w.Mode&SIFMT != g.Mode&SIFMT {
			add("type", p, TypeName(w.Mode), TypeName(g.Mode))
			continue
		}
		switch {
		case w.IsReg():
			if !bytes.Equal(w.Content, g.Content) {
				add("content", p, clip(w.Content), clip(g.Content))
			}
		case w.IsLnk():
			if w.Link != g.Link {
				add("link", p, fmt.Sprintf("%q", w.Link), fmt.Sprintf("%q", g.Link))
			}
		case w.Mode&SIFMT == SIFCHR || w.Mode&SIFMT == SIFBLK:
			if w.Rdev != g.Rdev {
				add("rdev", p, fmt.Sprintf("%#x", w.Rdev), fmt.Sprintf("%#x", g.Rdev))
			}
		}
		attrs := o.Attrs && !w.IsDir() || o.DirAttrs && w.IsDir() && !w.Implicit
		if attrs {
			if !w.IsDir() && w.Size != g.Size {
				add("size", p, fmt.Sprint(w.Size), fmt.Sprint(g.Size))
			}
			if w.Mode != g.Mode {
				add("mode", p, fmt.Sprintf("%o", w.Mode), fmt.Sprintf("%o", g.Mode))
			}
			if w.UID != g.UID || w.GID != g.GID {
				add("owner", p, fmt.Sprintf("%d:%d", w.UID, w.GID), fmt.Sprintf("%d:%d", g.UID, g.GID))
			}
			if w.Mtime != g.Mtime || w.MtimeNs != g.MtimeNs {
				add("mtime", p, fmt.Sprintf("%d.%09d", w.Mtime, w.MtimeNs), fmt.Sprintf("%d.%09d", g.Mtime, g.MtimeNs))
			}
			if ws, gs := xattrString(w.Xattrs, o.IgnoreXattr), xattrString(g.Xattrs, o.IgnoreXattr); ws != gs {
				add("xattrs", p, ws, gs)
			}
		}
		if (o.Nlink && !w.IsDir() || o.DirNlink && w.IsDir()) && w.Nlink != g.Nlink {
			add("nlink", p, fmt.Sprint(w.Nlink), fmt.Sprint(g.Nlink))
		}
	}
	for _, p := range got.Paths() {
		if skipped(p, o.Skip) {
			continue
		}
		if _, ok := want[p]; !ok {
			add("unexpected", p, "no such entry", TypeName(got[p].Mode))
		}
	}
	if o.HardlinkSets {
		ps := want.Paths()
		for i, p := range ps {
			for _, q := range ps[i+1:] {
				wp, wq, gp, gq := want[p], want[q], got[p], got[q]
				if gp == nil || gq == nil || skipped(p, o.Skip) || skipped(q, o.Skip) {
					continue
				}
				if (wp.Obj == wq.Obj) != (gp.Ino == gq.Ino) {
					add("hardlink-identity", p+" vs "+q, fmt.Sprintf("same inode=%v", wp.Obj == wq.Obj), fmt.Sprintf("ino %d vs %d", gp.Ino, gq.Ino))
				}
			}
		}
	}
	return out
}
