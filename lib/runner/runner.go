// Package runner is the common driver of every check binary: it parses the
// command line, fans parts out to worker processes (one vrt scheduler per
// process), merges their results, matches violations against
// known_findings.jsonl, writes the evidence file and sets the exit code.
package runner

import (
	"bufio"
	"crypto/sha256"
	"encoding/hex"
	"encoding/json"
	"flag"
	"fmt"
	"os"
	"os/exec"
	"path/filepath"
	"runtime"
	"sort"
	"strconv"
	"strings"
	"sync"
	"syscall"
	"time"
)

// Violation reported by a part.
type Violation struct {
	Key    string `json:"key"` // stable identity of the failing input / history / schedule class
	Msg    string `json:"msg"`
	Part   string `json:"part"`
	Replay any    `json:"replay"` // whatever the part needs to re-execute it
}

// Result of one part (possibly one shard of it).
type Result struct {
	Evaluations int64          `json:"evaluations"` // executions / cases run on the implementation
	States      int64          `json:"states"`      // distinct states or distinct schedules
	Transitions int64          `json:"transitions"`
	Nontrivial  int64          `json:"nontrivial"` // distinct non-trivial cases (rule given by the check)
	Outcomes    map[string]int `json:"outcomes,omitempty"`
	Violations  []Violation    `json:"violations,omitempty"`
	Samples     []any          `json:"samples,omitempty"`
	Caps        []string       `json:"caps,omitempty"` // caps hit (=> not exhaustive)
	Extra       map[string]any `json:"extra,omitempty"`
	Broken      string         `json:"broken,omitempty"`
}

// Ctx is handed to a part's Run in the worker process.
type Ctx struct {
	Tier     string
	Seed     int64
	Shard    int
	Of       int
	Deadline time.Time
	Scratch  string // per-process scratch dir on tmpfs, removed at exit
	Replay   json.RawMessage
}

// Part is an independently runnable piece of a check.
type Part struct {
	Name   string
	Shards int
	Run    func(c *Ctx) *Result
	// Replay re-executes one violation (optional).
	Replay func(c *Ctx, replay json.RawMessage) (string, error)
}

// Check describes one property check.
type Check struct {
	ID          string
	Level       string
	Rule        string
	Assumptions []string
	Parts       func(tier string) []Part
	// RacePass (optional): run the concurrent harness bodies n times each free-running (binary built
	// with -race); returns bodies completed and panics. A side condition, never a verdict.
	RacePass func(n int, scratch string) (completed int, panics []string)
	// Budget per tier (wall clock for the whole check); parts get a shared deadline.
	QuickBudget, ThoroughBudget time.Duration
}

type finding struct {
	Property string `json:"property"`
	Key      string `json:"key"`
	What     string `json:"what"`
	Status   string `json:"status"`
	Commit   string `json:"commit,omitempty"`
}

func verifDir() string {
	if d := os.Getenv("VERIF_DIR"); d != "" {
		return d
	}
	return "/verif"
}

func loadFindings(id string) []finding {
	f, err := os.Open(filepath.Join(verifDir(), "known_findings.jsonl"))
	if err != nil {
		return nil
	}
	defer f.Close()
	var out []finding
	sc := bufio.NewScanner(f)
	sc.Buffer(make([]byte, 1<<20), 1<<20)
	for sc.Scan() {
		line := strings.TrimSpace(sc.Text())
		if line == "" || strings.HasPrefix(line, "#") {
			continue
		}
		var fd finding
		if json.Unmarshal([]byte(line), &fd) == nil && fd.Property == id {
			out = append(out, fd)
		}
	}
	return out
}

// Scratch creates the per-process scratch directory.
func mkScratch() string {
	base := "/dev/shm"
	if st, err := os.Stat(base); err != nil || !st.IsDir() {
		base = os.TempDir()
	}
	d := filepath.Join(base, fmt.Sprintf("verif-%d", os.Getpid()))
	os.RemoveAll(d)
	os.MkdirAll(d, 0o755)
	return d
}

// Main is the entry point of every check binary.
func Main(ck Check) {
	tier := flag.String("tier", "", "quick|thorough")
	worker := flag.Bool("worker", false, "internal: run one part shard")
	part := flag.String("part", "", "internal")
	shard := flag.Int("shard", 0, "internal")
	of := flag.Int("of", 1, "internal")
	out := flag.String("out", "", "internal: result file")
	deadline := flag.Int64("deadline", 0, "internal: unix deadline")
	replay := flag.String("replay", "", "replay file")
	only := flag.String("only", "", "run only parts whose name has this prefix (debugging; evidence not written)")
	racepass := flag.Int("racepass", 0, "run the race pass: every concurrent harness body N times free-running")
	flag.Parse()
	if *racepass > 0 {
		if ck.RacePass == nil {
			fmt.Println("no race pass for this check")
			os.Exit(0)
		}
		scratch := mkScratch()
		done, panics := ck.RacePass(*racepass, scratch)
		os.RemoveAll(scratch)
		fmt.Printf("RACEPASS property=%s bodies_completed=%d panics=%d\n", ck.ID, done, len(panics))
		for i, p := range panics {
			if i < 5 {
				fmt.Println("  panic:", p)
			}
		}
		os.Exit(0)
	}
	if *tier == "" {
		*tier = os.Getenv("VERIF_TIER")
	}
	if *tier == "" {
		*tier = "quick"
	}
	seed, _ := strconv.ParseInt(os.Getenv("VERIF_SEED"), 10, 64)

	if *replay != "" {
		os.Exit(doReplay(ck, *tier, seed, *replay))
	}
	if *worker {
		scratch := mkScratch()
		code := runWorker(ck, *tier, seed, *part, *shard, *of, *out, *deadline, scratch)
		os.RemoveAll(scratch)
		os.Exit(code)
	}
	os.Exit(master(ck, *tier, seed, *only))
}

func runWorker(ck Check, tier string, seed int64, part string, shard, of int, out string, deadline int64, scratch string) int {
	for _, p := range ck.Parts(tier) {
		if p.Name != part {
			continue
		}
		ctx := &Ctx{Tier: tier, Seed: seed, Shard: shard, Of: of, Scratch: scratch}
		if deadline > 0 {
			ctx.Deadline = time.Unix(deadline, 0)
		}
		var res *Result
		func() {
			defer func() {
				if r := recover(); r != nil {
					buf := make([]byte, 1<<16)
					n := runtime.Stack(buf, false)
					res = &Result{Broken: fmt.Sprintf("worker panic: %v\n%s", r, buf[:n])}
				}
			}()
			res = p.Run(ctx)
		}()
		b, _ := json.Marshal(res)
		if err := os.WriteFile(out, b, 0o644); err != nil {
			fmt.Fprintln(os.Stderr, err)
			return 2
		}
		return 0
	}
	fmt.Fprintf(os.Stderr, "unknown part %q\n", part)
	return 2
}

// acquireSlot takes one of N machine-wide worker slots (flock on files under
// /dev/shm) so that several checks running at the same time share the cores
// instead of oversubscribing them. Returns a release function.
func acquireSlot(n int) func() {
	dir := "/dev/shm/verif-slots"
	if err := os.MkdirAll(dir, 0o777); err != nil {
		return func() {}
	}
	start := os.Getpid()
	for {
		for i := 0; i < n; i++ {
			k := (start + i) % n
			f, err := os.OpenFile(filepath.Join(dir, fmt.Sprintf("slot-%d", k)), os.O_CREATE|os.O_RDWR, 0o666)
			if err != nil {
				return func() {}
			}
			if syscall.Flock(int(f.Fd()), syscall.LOCK_EX|syscall.LOCK_NB) == nil {
				return func() {
					syscall.Flock(int(f.Fd()), syscall.LOCK_UN)
					f.Close()
				}
			}
			f.Close()
		}
		time.Sleep(20 * time.Millisecond)
	}
}

type job struct {
	part  Part
	shard int
}

func master(ck Check, tier string, seed int64, only string) int {
	start := time.Now()
	budget := ck.QuickBudget
	if tier == "thorough" {
		budget = ck.ThoroughBudget
	}
	if budget == 0 {
		budget = 10 * time.Minute
	}
	if v, err := strconv.Atoi(os.Getenv("VERIF_BUDGET_S")); err == nil && v > 0 {
		budget = time.Duration(v) * time.Second // smoke runs of the thorough tier
	}
	deadline := start.Add(budget)
	parts := ck.Parts(tier)
	var jobs []job
	for _, p := range parts {
		if only != "" && !strings.HasPrefix(p.Name, only) {
			continue
		}
		n := p.Shards
		if n <= 0 {
			n = 1
		}
		for i := 0; i < n; i++ {
			jobs = append(jobs, job{p, i})
		}
	}
	self, _ := os.Executable()
	tmp, _ := os.MkdirTemp("", "verif-master-")
	defer os.RemoveAll(tmp)
	par := runtime.NumCPU()
	if v, err := strconv.Atoi(os.Getenv("VERIF_PAR")); err == nil && v > 0 {
		par = v
	}
	type done struct {
		j   job
		res *Result
	}
	results := make([]done, len(jobs))
	sem := make(chan struct{}, par)
	var wg sync.WaitGroup
	for i, j := range jobs {
		wg.Add(1)
		sem <- struct{}{}
		go func(i int, j job) {
			defer wg.Done()
			defer func() { <-sem }()
			release := acquireSlot(runtime.NumCPU())
			defer release()
			// the budget of a worker starts when it gets its slot (other checks may be using the machine)
			dl := deadline
			if w := time.Now().Add(budget); w.After(dl) {
				dl = w
			}
			// ... but the whole check never takes more than twice its budget
			if hard := start.Add(2 * budget); dl.After(hard) {
				dl = hard
			}
			n := j.part.Shards
			if n <= 0 {
				n = 1
			}
			outf := filepath.Join(tmp, fmt.Sprintf("r%d.json", i))
			cmd := exec.Command(self, "--worker", "--tier", tier, "--part", j.part.Name, "--shard", strconv.Itoa(j.shard), "--of", strconv.Itoa(n),
				"--out", outf, "--deadline", strconv.FormatInt(dl.Unix(), 10))
			cmd.SysProcAttr = &syscall.SysProcAttr{Pdeathsig: syscall.SIGKILL}
			cmd.Env = append(os.Environ(), "GOMAXPROCS="+gomaxprocs(), fmt.Sprintf("VERIF_SEED=%d", seed))
			logf := filepath.Join(tmp, fmt.Sprintf("r%d.log", i))
			lf, _ := os.Create(logf)
			cmd.Stdout, cmd.Stderr = lf, lf
			err := cmd.Run()
			lf.Close()
			res := &Result{}
			b, rerr := os.ReadFile(outf)
			if rerr != nil || json.Unmarshal(b, res) != nil {
				lb, _ := os.ReadFile(logf)
				if len(lb) > 8000 {
					// keep the head (fatal error / panic message) and the tail
					lb = append(append(append([]byte{}, lb[:5000]...), []byte("\n...\n")...), lb[len(lb)-3000:]...)
				}
				res = &Result{Broken: fmt.Sprintf("worker %s/%d died: %v\n%s", j.part.Name, j.shard, err, lb)}
			}
			results[i] = done{j, res}
		}(i, j)
	}
	wg.Wait()

	// merge
	total := &Result{Outcomes: map[string]int{}, Extra: map[string]any{}}
	perPart := map[string]*Result{}
	var order []string
	for _, d := range results {
		r := d.res
		pp := perPart[d.j.part.Name]
		if pp == nil {
			pp = &Result{Outcomes: map[string]int{}}
			perPart[d.j.part.Name] = pp
			order = append(order, d.j.part.Name)
		}
		for _, t := range []*Result{total, pp} {
			t.Evaluations += r.Evaluations
			t.States += r.States
			t.Transitions += r.Transitions
			t.Nontrivial += r.Nontrivial
			for k, v := range r.Outcomes {
				t.Outcomes[k] += v
			}
			for _, c := range r.Caps {
				t.Caps = appendUniq(t.Caps, d.j.part.Name+": "+c)
			}
			if r.Broken != "" && t.Broken == "" {
				t.Broken = d.j.part.Name + ": " + r.Broken
			}
		}
		for i := range r.Violations {
			r.Violations[i].Part = d.j.part.Name
		}
		total.Violations = append(total.Violations, r.Violations...)
		if len(total.Samples) < 6 && len(r.Samples) > 0 && d.j.shard == 0 {
			total.Samples = append(total.Samples, r.Samples[0])
		}
		if d.j.shard == 0 {
			for k, v := range r.Extra {
				total.Extra[d.j.part.Name+"."+k] = v
			}
		}
	}
	partSummary := map[string]any{}
	for _, n := range order {
		p := perPart[n]
		partSummary[n] = map[string]any{"evaluations": p.Evaluations, "states": p.States, "transitions": p.Transitions,
			"nontrivial": p.Nontrivial, "outcomes": len(p.Outcomes), "caps": p.Caps}
	}

	if total.Broken != "" {
		fmt.Printf("BROKEN-CHECK property=%s %s\n", ck.ID, total.Broken)
		return 2
	}

	// findings
	known := loadFindings(ck.ID)
	exit := 0
	seenKnown := map[string]bool{}
	seenViol := map[string]bool{}
	unknown := 0
	for _, v := range total.Violations {
		matched := false
		for _, k := range known {
			if k.Status == "known" && k.Key == v.Key {
				matched = true
				if !seenKnown[k.Key] {
					seenKnown[k.Key] = true
					fmt.Printf("KNOWN-FINDING: property=%s %s [%s]\n", ck.ID, k.What, k.Key)
				}
			}
		}
		if matched {
			continue
		}
		if seenViol[v.Key] {
			continue
		}
		seenViol[v.Key] = true
		unknown++
		path := writeReplay(ck.ID, v)
		fmt.Printf("VIOLATION property=%s replay=%s\n", ck.ID, path)
		fmt.Printf("  key=%s\n  %s\n", v.Key, strings.ReplaceAll(v.Msg, "\n", "\n  "))
		exit = 1
	}

	wall := time.Since(start).Seconds()
	exhaustive := len(total.Caps) == 0
	if only == "" {
		writeEvidence(ck, tier, seed, total, partSummary, exhaustive, wall, unknown, len(seenKnown))
	}
	fmt.Printf("%s tier=%s evaluations=%d states=%d transitions=%d nontrivial=%d outcomes=%d exhaustive=%v wall=%.1fs violations=%d known=%d\n",
		ck.ID, tier, total.Evaluations, total.States, total.Transitions, total.Nontrivial, len(total.Outcomes), exhaustive, wall, unknown, len(seenKnown))
	for _, c := range total.Caps {
		fmt.Printf("  cap: %s\n", c)
	}
	return exit
}

func gomaxprocs() string {
	if v := os.Getenv("VERIF_WORKER_GOMAXPROCS"); v != "" {
		return v
	}
	return "1"
}

func appendUniq(l []string, s string) []string {
	for _, x := range l {
		if x == s {
			return l
		}
	}
	return append(l, s)
}

func writeReplay(id string, v Violation) string {
	dir := filepath.Join(verifDir(), "replays", id)
	os.MkdirAll(dir, 0o755)
	h := sha256.Sum256([]byte(v.Key + v.Msg))
	p := filepath.Join(dir, hex.EncodeToString(h[:6])+".json")
	b, _ := json.MarshalIndent(v, "", " ")
	os.WriteFile(p, b, 0o644)
	return p
}

func writeEvidence(ck Check, tier string, seed int64, t *Result, parts map[string]any, exhaustive bool, wall float64, viol, known int) {
	outs := make([]string, 0, len(t.Outcomes))
	for k, v := range t.Outcomes {
		outs = append(outs, fmt.Sprintf("%s x%d", k, v))
	}
	sort.Strings(outs)
	if len(outs) > 40 {
		outs = append(outs[:40], fmt.Sprintf("... (%d more)", len(outs)-40))
	}
	nontrivial := t.Nontrivial
	if t.Samples == nil {
		t.Samples = []any{}
	}
	if t.Caps == nil {
		t.Caps = []string{}
	}
	cov := map[string]any{
		"evaluations":                   t.Evaluations,
		"distinct_nontrivial":           nontrivial,
		"rule":                          ck.Rule,
		"samples":                       t.Samples,
		"states":                        t.States,
		"transitions":                   t.Transitions,
		"traces_validated_against_impl": t.Evaluations,
		"exhaustive":                    exhaustive,
		"caps_hit":                      t.Caps,
		"distinct_outcomes":             len(t.Outcomes),
		"outcomes":                      outs,
		"parts":                         parts,
		"known_findings_seen":           known,
	}
	for k, v := range t.Extra {
		cov[k] = v
	}
	ev := map[string]any{
		"property_id": ck.ID,
		"tier":        tier,
		"seed":        seed,
		"level":       ck.Level,
		"coverage":    cov,
		"assumptions": ck.Assumptions,
		"wall_s":      wall,
		"violations":  viol,
	}
	dir := filepath.Join(verifDir(), "evidence")
	if d := os.Getenv("VERIF_EVIDENCE_DIR"); d != "" {
		dir = d // runs against /repo + VERIF_PATCH must not overwrite the evidence of the real tree
	}
	os.MkdirAll(dir, 0o755)
	b, _ := json.MarshalIndent(ev, "", " ")
	tmp := filepath.Join(dir, ck.ID+".json.tmp")
	os.WriteFile(tmp, b, 0o644)
	os.Rename(tmp, filepath.Join(dir, ck.ID+".json"))
}

func doReplay(ck Check, tier string, seed int64, file string) int {
	b, err := os.ReadFile(file)
	if err != nil {
		fmt.Fprintln(os.Stderr, err)
		return 2
	}
	var v struct {
		Key    string          `json:"key"`
		Msg    string          `json:"msg"`
		Part   string          `json:"part"`
		Replay json.RawMessage `json:"replay"`
	}
	if err := json.Unmarshal(b, &v); err != nil {
		fmt.Fprintln(os.Stderr, err)
		return 2
	}
	for _, t := range []string{tier, "thorough", "quick"} {
		for _, p := range ck.Parts(t) {
			if p.Name == v.Part && p.Replay != nil {
				scratch := mkScratch()
				defer os.RemoveAll(scratch)
				out, err := p.Replay(&Ctx{Tier: t, Seed: seed, Of: 1, Scratch: scratch}, v.Replay)
				fmt.Println(out)
				if err != nil {
					fmt.Printf("VIOLATION property=%s replay=%s\n  %v\n", ck.ID, file, err)
					return 1
				}
				fmt.Println("replay: property held on this execution")
				return 0
			}
		}
	}
	fmt.Fprintf(os.Stderr, "no replayable part %q\n", v.Part)
	return 2
}
