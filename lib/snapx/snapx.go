// Package snapx is the shared machinery of the snapshotter checks (C08, C09):
// the operation alphabet, a "world" (real snapshot.NewSnapshotter on a real
// directory with a recording fake backend), an independent metadata reader, the
// canonical state projection and the explicit-state breadth-first search over
// operation histories. A state is the shortest history reaching it; a successor
// is obtained by replaying the history on a fresh root directory plus one more
// operation.
package snapx

import (
	"context"
	"crypto/sha256"
	"encoding/hex"
	"fmt"
	"io"
	"os"
	"path/filepath"
	"reflect"
	"sort"
	"strings"
	"time"

	"github.com/containerd/containerd/v2/core/mount"
	"github.com/containerd/containerd/v2/core/snapshots"
	"github.com/containerd/containerd/v2/core/snapshots/storage"
	"github.com/containerd/errdefs"
	"github.com/containerd/log"
	bolt "go.etcd.io/bbolt"

	"github.com/containerd/stargz-snapshotter/snapshot"

	"verif/lib/recfs"
)

const (
	TargetLabel = "containerd.io/snapshot.ref"
	RemoteLabel = "containerd.io/snapshot/remote"
	UpdateLabel = "containerd.io/snapshot/verif.updated"
)

var (
	Keys  = []string{"k1", "k2"}
	Names = []string{"T1", "T2"}
)

func init() {
	log.L.Logger.SetOutput(io.Discard)
	_ = log.SetLevel("panic")
}

// ---- operations ----------------------------------------------------------------

// Op is one snapshotter call.
type Op struct {
	Kind   string `json:"k"`             // prepare view commit mounts remove cleanup walk stat update close
	Key    string `json:"key,omitempty"` // key (prepare/view/commit) or subject (mounts/remove/stat/update)
	Parent string `json:"p,omitempty"`
	Target string `json:"t,omitempty"` // prepare: value of containerd.io/snapshot.ref ("" = no target label)
	Name   string `json:"n,omitempty"` // commit: name
}

func (o Op) String() string {
	switch o.Kind {
	case "prepare":
		if o.Target != "" {
			return fmt.Sprintf("Prepare(%s,parent=%q,target=%s)", o.Key, o.Parent, o.Target)
		}
		return fmt.Sprintf("Prepare(%s,parent=%q)", o.Key, o.Parent)
	case "view":
		return fmt.Sprintf("View(%s,parent=%q)", o.Key, o.Parent)
	case "commit":
		return fmt.Sprintf("Commit(%s,%s)", o.Name, o.Key)
	case "mounts":
		return fmt.Sprintf("Mounts(%s)", o.Key)
	case "remove":
		return fmt.Sprintf("Remove(%s)", o.Key)
	case "stat":
		return fmt.Sprintf("Stat(%s)", o.Key)
	case "update":
		return fmt.Sprintf("Update(%s,+label)", o.Key)
	case "cleanup":
		return "Cleanup()"
	case "walk":
		return "Walk()"
	case "close":
		return "Close()"
	}
	return o.Kind
}

// Step is an operation together with the environment's answers: the backend
// calls (recfs keys "Method|rel|occ") that fail during it.
type Step struct {
	Op    Op       `json:"op"`
	Fails []string `json:"fails,omitempty"`
}

func (s Step) String() string {
	if len(s.Fails) == 0 {
		return s.Op.String()
	}
	return s.Op.String() + "!fail[" + strings.Join(s.Fails, ";") + "]"
}

// HistString renders a history.
func HistString(h []Step) string {
	parts := make([]string, len(h))
	for i, s := range h {
		parts[i] = s.String()
	}
	return strings.Join(parts, " ; ")
}

// Alphabet is the complete operation alphabet.
func Alphabet() []Op {
	var ops []Op
	parents := append([]string{""}, Names...)
	targets := append([]string{""}, Names...)
	for _, k := range Keys {
		for _, p := range parents {
			for _, t := range targets {
				ops = append(ops, Op{Kind: "prepare", Key: k, Parent: p, Target: t})
			}
		}
	}
	for _, k := range Keys {
		for _, p := range parents {
			ops = append(ops, Op{Kind: "view", Key: k, Parent: p})
		}
	}
	for _, n := range Names {
		for _, k := range Keys {
			ops = append(ops, Op{Kind: "commit", Name: n, Key: k})
		}
	}
	all := append(append([]string{}, Keys...), Names...)
	for _, kind := range []string{"mounts", "remove", "stat", "update"} {
		for _, x := range all {
			ops = append(ops, Op{Kind: kind, Key: x})
		}
	}
	ops = append(ops, Op{Kind: "cleanup"}, Op{Kind: "walk"}, Op{Kind: "close"})
	return ops
}

// RemoteLabels are the labels a client passes to Prepare to ask for target T
// as a remote (lazily pulled) snapshot.
func RemoteLabels(target string) map[string]string {
	sum := sha256.Sum256([]byte(target))
	dg := "sha256:" + hex.EncodeToString(sum[:])
	return map[string]string{
		TargetLabel: target,
		"containerd.io/snapshot/remote/stargz.reference": "registry.test/repo/img:" + target,
		"containerd.io/snapshot/remote/stargz.digest":    dg,
		"containerd.io/snapshot/remote/stargz.layers":    dg,
	}
}

// ---- world ------------------------------------------------------------------------

// World is one real snapshotter on one real root directory.
type World struct {
	Root    string
	Scratch string
	Async   bool
	FS      *recfs.FS
	Sn      snapshots.Snapshotter
	Closed  bool
	nmeta   int
}

// NewWorld constructs the snapshotter (sync or async removal) on root.
func NewWorld(root, scratch string, async bool, extra ...snapshot.Opt) (*World, error) {
	w := &World{Root: root, Scratch: scratch, Async: async, FS: recfs.New(root)}
	var opts []snapshot.Opt
	if async {
		opts = append(opts, snapshot.AsynchronousRemove)
	}
	opts = append(opts, extra...)
	w.FS.Begin("start", nil)
	sn, err := snapshot.NewSnapshotter(context.Background(), root, w.FS, opts...)
	w.FS.End()
	if err != nil {
		return nil, err
	}
	w.Sn = sn
	return w, nil
}

// Result of one executed step.
type Result struct {
	Step   Step
	Err    error
	Mounts []mount.Mount
	Infos  []snapshots.Info
	Info   snapshots.Info
	Calls  []recfs.Call
	Unused []string
	Panic  string
}

// Exec runs one step.
func (w *World) Exec(st Step) (res *Result) {
	res = &Result{Step: st}
	ctx := context.Background()
	w.FS.Begin(st.Op.String(), st.Fails)
	defer func() {
		if r := recover(); r != nil {
			res.Panic = fmt.Sprint(r)
		}
		res.Calls, res.Unused = w.FS.End()
	}()
	o := st.Op
	switch o.Kind {
	case "prepare":
		var opts []snapshots.Opt
		if o.Target != "" {
			opts = append(opts, snapshots.WithLabels(RemoteLabels(o.Target)))
		}
		res.Mounts, res.Err = w.Sn.Prepare(ctx, o.Key, o.Parent, opts...)
	case "view":
		res.Mounts, res.Err = w.Sn.View(ctx, o.Key, o.Parent)
	case "commit":
		res.Err = w.Sn.Commit(ctx, o.Name, o.Key)
	case "mounts":
		res.Mounts, res.Err = w.Sn.Mounts(ctx, o.Key)
	case "remove":
		res.Err = w.Sn.Remove(ctx, o.Key)
	case "stat":
		res.Info, res.Err = w.Sn.Stat(ctx, o.Key)
	case "update":
		res.Info, res.Err = w.Sn.Update(ctx, snapshots.Info{Name: o.Key, Labels: map[string]string{UpdateLabel: "1"}}, "labels."+UpdateLabel)
	case "cleanup":
		res.Err = w.Sn.(snapshots.Cleaner).Cleanup(ctx)
	case "walk":
		res.Err = w.Sn.Walk(ctx, func(_ context.Context, i snapshots.Info) error {
			res.Infos = append(res.Infos, i)
			return nil
		})
	case "close":
		res.Err = w.Sn.Close()
		w.Closed = true
	default:
		panic("unknown op " + o.Kind)
	}
	return res
}

// Dispose closes the snapshotter (releasing the bolt handle) and deletes the root
// directory. Teardown is not part of any checked history.
func (w *World) Dispose() {
	if w.Sn != nil && !w.Closed {
		w.FS.Begin("dispose", nil)
		func() {
			defer func() { recover() }()
			w.Sn.Close()
		}()
		w.FS.End()
		w.Closed = true
	}
	os.RemoveAll(w.Root)
}

// UpperPath is where the snapshot with the given id keeps its layer ("fs").
func (w *World) UpperPath(id string) string { return UpperPath(w.Root, id) }

func UpperPath(root, id string) string { return filepath.Join(root, "snapshots", id, "fs") }
func WorkPath(root, id string) string  { return filepath.Join(root, "snapshots", id, "work") }

// ErrClass maps an error to its errdefs class.
func ErrClass(err error) string {
	switch {
	case err == nil:
		return "ok"
	case errdefs.IsAlreadyExists(err):
		return "AlreadyExists"
	case errdefs.IsNotFound(err):
		return "NotFound"
	case errdefs.IsUnavailable(err):
		return "Unavailable"
	case errdefs.IsFailedPrecondition(err):
		return "FailedPrecondition"
	case errdefs.IsInvalidArgument(err):
		return "InvalidArgument"
	}
	return "other"
}

// ---- independent metadata reader ---------------------------------------------------

// Snap is one snapshot as recorded in metadata.db.
type Snap struct {
	Key    string
	ID     string
	Kind   snapshots.Kind
	Parent string
	Labels map[string]string
}

func (s *Snap) Remote() bool { _, ok := s.Labels[RemoteLabel]; return ok }

func (s *Snap) String() string {
	return fmt.Sprintf("%s{id=%s %s parent=%q labels[%s]}", s.Key, s.ID, s.Kind, s.Parent, recfs.LabelString(s.Labels))
}

// Same compares everything but the id.
func (s *Snap) Same(o *Snap) bool {
	return s.Key == o.Key && s.Kind == o.Kind && s.Parent == o.Parent && recfs.LabelString(s.Labels) == recfs.LabelString(o.Labels)
}

// Meta is the content of a metadata.db.
type Meta struct {
	ByKey map[string]*Snap
	ByID  map[string]*Snap
}

func (m *Meta) SortedKeys() []string {
	ks := make([]string, 0, len(m.ByKey))
	for k := range m.ByKey {
		ks = append(ks, k)
	}
	sort.Strings(ks)
	return ks
}

// Chain returns key and its ancestors (nearest first) following Parent names.
func (m *Meta) Chain(key string) []*Snap {
	var out []*Snap
	for key != "" && len(out) < 64 {
		s := m.ByKey[key]
		if s == nil {
			break
		}
		out = append(out, s)
		key = s.Parent
	}
	return out
}

// String is a canonical rendering including ids.
func (m *Meta) String() string {
	var sb strings.Builder
	for _, k := range m.SortedKeys() {
		sb.WriteString(m.ByKey[k].String())
		sb.WriteByte('\n')
	}
	return sb.String()
}

var metaSeq int

// ReadMeta reads a metadata.db through containerd's storage package on a private
// copy of the file (the live file is flock'ed by the snapshotter). It does not go
// through snapshot.go. A missing file is an empty store.
func ReadMeta(dbfile, scratch string) (*Meta, error) {
	m := &Meta{ByKey: map[string]*Snap{}, ByID: map[string]*Snap{}}
	b, err := os.ReadFile(dbfile)
	if err != nil {
		if os.IsNotExist(err) {
			return m, nil
		}
		return nil, err
	}
	if len(b) == 0 {
		return m, nil
	}
	metaSeq++
	tmp := filepath.Join(scratch, fmt.Sprintf("meta-%d.db", metaSeq))
	if err := os.WriteFile(tmp, b, 0o600); err != nil {
		return nil, err
	}
	defer os.Remove(tmp)
	ms, err := storage.NewMetaStore(tmp, func(o *bolt.Options) error { o.ReadOnly = true; return nil })
	if err != nil {
		return nil, err
	}
	defer ms.Close()
	return readMetaStore(ms)
}

func readMetaStore(ms *storage.MetaStore) (*Meta, error) {
	m := &Meta{ByKey: map[string]*Snap{}, ByID: map[string]*Snap{}}
	ctx, t, err := ms.TransactionContext(context.Background(), false)
	if err != nil {
		return nil, err
	}
	defer t.Rollback()
	ids, err := storage.IDMap(ctx)
	if err != nil {
		if errdefs.IsNotFound(err) {
			return m, nil
		}
		return nil, err
	}
	err = storage.WalkInfo(ctx, func(_ context.Context, i snapshots.Info) error {
		s := &Snap{Key: i.Name, Kind: i.Kind, Parent: i.Parent, Labels: map[string]string{}}
		for k, v := range i.Labels {
			s.Labels[k] = v
		}
		m.ByKey[s.Key] = s
		return nil
	})
	if err != nil {
		return nil, err
	}
	for id, key := range ids {
		s := m.ByKey[key]
		if s == nil {
			return nil, fmt.Errorf("id map names %q (id %s) which Walk did not report", key, id)
		}
		s.ID = id
		m.ByID[id] = s
	}
	return m, nil
}

// Meta reads this world's committed metadata. Fast path: a read transaction on
// the snapshotter's own MetaStore handle (reached through reflection; the reads
// themselves go through containerd's storage package, not through snapshot.go).
// Fallback: ReadMeta on a copy of the file.
func (w *World) Meta() (*Meta, error) {
	if ms := liveMetaStore(w.Sn); ms != nil && !w.Closed {
		if _, err := os.Stat(filepath.Join(w.Root, "metadata.db")); err != nil && os.IsNotExist(err) {
			return &Meta{ByKey: map[string]*Snap{}, ByID: map[string]*Snap{}}, nil
		}
		return readMetaStore(ms)
	}
	return ReadMeta(filepath.Join(w.Root, "metadata.db"), w.Scratch)
}

// liveMetaStore digs the *storage.MetaStore out of the snapshotter value.
func liveMetaStore(sn snapshots.Snapshotter) *storage.MetaStore {
	if sn == nil || os.Getenv("SNAPX_COPY_META") != "" {
		return nil
	}
	v := reflect.ValueOf(sn)
	if v.Kind() != reflect.Pointer || v.Elem().Kind() != reflect.Struct {
		return nil
	}
	f := v.Elem().FieldByName("ms")
	if !f.IsValid() || f.Type() != reflect.TypeOf((*storage.MetaStore)(nil)) || f.IsNil() {
		return nil
	}
	return (*storage.MetaStore)(f.UnsafePointer())
}

// ---- directory helpers ----------------------------------------------------------------

// LsSnapshots lists <root>/snapshots (sorted).
func LsSnapshots(root string) []string {
	ents, err := os.ReadDir(filepath.Join(root, "snapshots"))
	if err != nil {
		return nil
	}
	var out []string
	for _, e := range ents {
		out = append(out, e.Name())
	}
	sort.Strings(out)
	return out
}

// Listing is the sorted recursive listing of dir ("rel/" for directories).
func Listing(dir string) []string {
	var out []string
	filepath.Walk(dir, func(p string, fi os.FileInfo, err error) error {
		if err != nil || p == dir {
			return nil
		}
		rel, _ := filepath.Rel(dir, p)
		if fi.IsDir() {
			rel += "/"
		}
		out = append(out, rel)
		return nil
	})
	sort.Strings(out)
	return out
}

func IsDir(p string) bool {
	st, err := os.Lstat(p)
	return err == nil && st.IsDir()
}

// TreeHash hashes the recursive listing and file contents of root.
func TreeHash(root string) string {
	h := sha256.New()
	filepath.Walk(root, func(p string, fi os.FileInfo, err error) error {
		if err != nil {
			return nil
		}
		rel, _ := filepath.Rel(root, p)
		fmt.Fprintf(h, "%s\x00%o\x00", rel, fi.Mode()&(os.ModeType|0o7777))
		if fi.Mode().IsRegular() {
			b, _ := os.ReadFile(p)
			fmt.Fprintf(h, "%d\x00", len(b))
			h.Write(b)
		}
		return nil
	})
	return hex.EncodeToString(h.Sum(nil)[:12])
}

// CopyTree copies src to dst (directories, regular files, modes and ownership).
func CopyTree(src, dst string) error {
	return filepath.Walk(src, func(p string, fi os.FileInfo, err error) error {
		if err != nil {
			return err
		}
		rel, _ := filepath.Rel(src, p)
		to := filepath.Join(dst, rel)
		switch {
		case fi.IsDir():
			if err := os.MkdirAll(to, 0o700); err != nil {
				return err
			}
			return os.Chmod(to, fi.Mode().Perm())
		case fi.Mode().IsRegular():
			b, err := os.ReadFile(p)
			if err != nil {
				return err
			}
			return os.WriteFile(to, b, fi.Mode().Perm())
		}
		return nil
	})
}

// ---- canonical state ----------------------------------------------------------------------

func mountsDesc(recs []recfs.MountRec) string {
	var parts []string
	for _, r := range recs {
		s := "[" + recfs.LabelString(r.Labels) + "]"
		if r.UnmountFailed {
			s += "!unmount-failed"
		}
		parts = append(parts, s)
	}
	return fmt.Sprintf("%dx%s", len(recs), strings.Join(parts, ""))
}

// Canon is the canonical state: metadata sorted by key without timestamps and
// with ids replaced by the owning key; the listing of snapshots/ with the same
// renaming (directories unknown to metadata are "orphan", temp directories
// "new"); the backend mount table attached to the directory it sits on.
func Canon(root string, meta *Meta, table map[string][]recfs.MountRec, closed bool) string {
	var sb strings.Builder
	for _, k := range meta.SortedKeys() {
		s := meta.ByKey[k]
		fmt.Fprintf(&sb, "S %s %s parent=%s [%s]\n", s.Key, s.Kind, s.Parent, recfs.LabelString(s.Labels))
	}
	seen := map[string]bool{}
	var dirs []string
	for _, name := range LsSnapshots(root) {
		tag := "orphan"
		if s := meta.ByID[name]; s != nil {
			tag = "of:" + s.Key
		} else if strings.HasPrefix(name, "new-") {
			tag = "new"
		}
		d := filepath.Join(root, "snapshots", name)
		desc := fmt.Sprintf("D %s {%s}", tag, strings.Join(Listing(d), " "))
		for mp, recs := range table {
			if strings.HasPrefix(mp, d+"/") {
				rel, _ := filepath.Rel(d, mp)
				desc += fmt.Sprintf(" mount@%s=%s", rel, mountsDesc(recs))
				seen[mp] = true
			}
		}
		dirs = append(dirs, desc)
	}
	sort.Strings(dirs)
	for _, d := range dirs {
		sb.WriteString(d)
		sb.WriteByte('\n')
	}
	var stale []string
	for mp, recs := range table {
		if !seen[mp] {
			stale = append(stale, "X mount-without-directory "+mountsDesc(recs))
		}
	}
	sort.Strings(stale)
	for _, s := range stale {
		sb.WriteString(s)
		sb.WriteByte('\n')
	}
	if closed {
		sb.WriteString("closed\n")
	}
	return sb.String()
}

// NormPaths replaces <root>/snapshots/<id>/ by {<key>}/ in s.
func NormPaths(root string, meta *Meta, s string) string {
	ids := make([]string, 0, len(meta.ByID))
	for id := range meta.ByID {
		ids = append(ids, id)
	}
	sort.Slice(ids, func(i, j int) bool {
		return len(ids[i]) > len(ids[j]) || (len(ids[i]) == len(ids[j]) && ids[i] < ids[j])
	})
	for _, id := range ids {
		s = strings.ReplaceAll(s, filepath.Join(root, "snapshots", id)+"/", "{"+meta.ByID[id].Key+"}/")
	}
	return strings.ReplaceAll(s, root, "{root}")
}

// Observe is the observation vector of a live state: what Mounts answers for
// every key when the backend answers every check truthfully.
func (w *World) Observe(meta *Meta) string {
	if w.Closed {
		return "closed"
	}
	var sb strings.Builder
	for _, x := range append(append([]string{}, Keys...), Names...) {
		r := w.Exec(Step{Op: Op{Kind: "mounts", Key: x}})
		if r.Panic != "" {
			fmt.Fprintf(&sb, "%s: panic %s\n", x, r.Panic)
			continue
		}
		fmt.Fprintf(&sb, "%s: %s", x, ErrClass(r.Err))
		for _, m := range r.Mounts {
			fmt.Fprintf(&sb, " %s %s %s", m.Type, NormPaths(w.Root, meta, m.Source), NormPaths(w.Root, meta, strings.Join(m.Options, ",")))
		}
		sb.WriteByte('\n')
	}
	return sb.String()
}

// HashString is a short stable hash.
func HashString(s string) string { return hashStr(s) }

func hashStr(s string) string {
	h := sha256.Sum256([]byte(s))
	return hex.EncodeToString(h[:10])
}

// ---- transitions ---------------------------------------------------------------------------

// UnmountObs is what the fake saw when a live mount was taken down.
type UnmountObs struct {
	Call      recfs.Call
	ID        string // directory name under snapshots/
	InMeta    bool   // that id was still recorded in metadata.db at the time of the call
	Owner     string // key owning the id (if InMeta)
	DirExists bool   // the mountpoint directory existed at the time of the call
	Scripted  bool   // the call was scripted to fail (the mount stays)
}

// Trans is one executed transition with everything the invariants need.
type Trans struct {
	Async     bool
	Hist      []Step
	Step      Step
	Root      string
	Pre, Post *Meta
	PreTable  map[string][]recfs.MountRec
	PostTable map[string][]recfs.MountRec
	Res       *Result
	Unmounts  []UnmountObs
	PostDirs  []string
	MissingMP []string // live mounts (post) whose directory does not exist, normalised
	Canon     string
	Hash      string // of Canon + deviations used
	Obs       string
	Closed    bool
	Devs      int
	FromHash  string // hash of the state the step was applied to
	Depth     int    // length of Hist + 1
	LastLevel bool   // the successor is at the depth bound (not expanded further)
}

var worldSeq int

// ReplayWorld builds a fresh world and replays hist on it.
func ReplayWorld(scratch string, async bool, hist []Step) (*World, error) {
	worldSeq++
	root := filepath.Join(scratch, fmt.Sprintf("w%d", worldSeq))
	os.RemoveAll(root)
	w, err := NewWorld(root, scratch, async)
	if err != nil {
		return nil, fmt.Errorf("NewSnapshotter on a fresh root: %w", err)
	}
	for i, st := range hist {
		r := w.Exec(st)
		if r.Panic != "" {
			w.Dispose()
			return nil, fmt.Errorf("replay of step %d (%s) panicked: %s", i, st, r.Panic)
		}
		if len(r.Unused) > 0 {
			w.Dispose()
			return nil, fmt.Errorf("replay of step %d (%s) is not deterministic: scripted failures %v were not consumed", i, st, r.Unused)
		}
	}
	return w, nil
}

// Session executes steps from one state (history). Every step conceptually runs
// on a fresh replay of the history; as an optimisation the replayed world is kept
// for the next step when the step provably left it in the identical state: the
// byte-identical root directory tree (including metadata.db) and the identical
// backend mount table, not closed, no panic. (The snapshotter object holds no
// other mutable state.) Set SNAPX_NO_REUSE=1 to replay for every step.
type Session struct {
	Scratch string
	Async   bool
	Hist    []Step
	Devs    int // scripted failures used by Hist

	w        *World
	pre      *Meta
	preHash  string
	preTable string
	Replays  int
}

func tableString(root string, t map[string][]recfs.MountRec) string {
	var parts []string
	for mp, recs := range t {
		rel, _ := filepath.Rel(root, mp)
		parts = append(parts, rel+"="+mountsDesc(recs))
	}
	sort.Strings(parts)
	return strings.Join(parts, ";")
}

// World returns the replayed world (replaying if necessary).
func (s *Session) World() (*World, error) {
	if s.w != nil {
		return s.w, nil
	}
	w, err := ReplayWorld(s.Scratch, s.Async, s.Hist)
	if err != nil {
		return nil, err
	}
	s.Replays++
	if s.pre, err = w.Meta(); err != nil {
		w.Dispose()
		return nil, fmt.Errorf("reading metadata before the step: %w", err)
	}
	s.preHash = TreeHash(w.Root)
	s.preTable = tableString(w.Root, w.FS.Table())
	s.w = w
	return w, nil
}

// Pre is the metadata of the session's state.
func (s *Session) Pre() *Meta { return s.pre }

// Done is called after a step ran on the world: keep it if untouched, else drop it.
func (s *Session) Done(panicked bool) {
	w := s.w
	if w == nil {
		return
	}
	if os.Getenv("SNAPX_NO_REUSE") == "" && !panicked && !w.Closed && TreeHash(w.Root) == s.preHash && tableString(w.Root, w.FS.Table()) == s.preTable {
		return
	}
	w.Dispose()
	s.w = nil
}

// Close disposes of the world.
func (s *Session) Close() {
	if s.w != nil {
		s.w.Dispose()
		s.w = nil
	}
}

// Run executes step from the session's state with full observation.
func (s *Session) Run(step Step) (*Trans, error) {
	w, err := s.World()
	if err != nil {
		return nil, err
	}
	t := &Trans{Async: s.Async, Hist: s.Hist, Step: step, Root: w.Root, Devs: s.Devs + len(step.Fails)}
	t.Pre = s.pre
	t.PreTable = w.FS.Table()
	w.FS.Before = func(c *recfs.Call) {
		if c.Method != "Unmount" || !c.Live {
			return
		}
		o := UnmountObs{Call: *c, DirExists: c.DirExists, Scripted: c.Scripted}
		o.ID = filepath.Base(filepath.Dir(c.Mountpoint))
		if m, err := w.Meta(); err == nil {
			if s := m.ByID[o.ID]; s != nil {
				o.InMeta, o.Owner = true, s.Key
			}
		}
		t.Unmounts = append(t.Unmounts, o)
	}
	t.Res = w.Exec(step)
	w.FS.Before = nil
	t.Closed = w.Closed
	fail := func(err error) (*Trans, error) {
		s.Close()
		return nil, err
	}
	if t.Post, err = w.Meta(); err != nil {
		return fail(fmt.Errorf("reading metadata after the step: %w", err))
	}
	t.PostTable = w.FS.Table()
	t.PostDirs = LsSnapshots(w.Root)
	for mp, recs := range t.PostTable {
		if IsDir(mp) {
			continue
		}
		failed := true
		for _, r := range recs {
			if !r.UnmountFailed {
				failed = false
			}
		}
		if !failed {
			t.MissingMP = append(t.MissingMP, w.FS.Rel(mp))
		}
	}
	sort.Strings(t.MissingMP)
	t.Canon = Canon(w.Root, t.Post, t.PostTable, t.Closed)
	t.Hash = hashStr(fmt.Sprintf("%s|devs=%d", t.Canon, t.Devs))
	t.Obs = w.Observe(t.Post)
	s.Done(t.Res.Panic != "")
	return t, nil
}

// RunTransition replays hist on a fresh root and executes step with full observation.
func RunTransition(scratch string, async bool, hist []Step, step Step, devsBefore int) (*Trans, error) {
	s := &Session{Scratch: scratch, Async: async, Hist: hist, Devs: devsBefore}
	defer s.Close()
	return s.Run(step)
}

// FaultCandidates are the calls of a run whose answer the environment may flip
// to "fail" with an observable effect: every Mount, and Check/Unmount calls on
// live mounts (the fake already refuses those on paths that are not mounted).
// Only calls after the last already-failing call are returned.
func FaultCandidates(calls []recfs.Call, fails []string) []string {
	start := 0
	if len(fails) > 0 {
		last := fails[len(fails)-1]
		for i, c := range calls {
			if c.Key() == last {
				start = i + 1
			}
		}
	}
	var out []string
	for _, c := range calls[start:] {
		if c.Scripted {
			continue
		}
		if c.Method == "Mount" || c.Live {
			out = append(out, c.Key())
		}
	}
	return out
}

// ---- breadth-first search ---------------------------------------------------------------------

// Node is a state: the shortest history reaching it.
type Node struct {
	Hist   []Step
	Devs   int
	Closed bool
	Hash   string
	Obs    string
}

// ExploreOpts configures Explore.
type ExploreOpts struct {
	Async     bool
	Depth     int // histories of length <= Depth are executed
	MaxDev    int // scripted failures per history
	Shard, Of int
	ShardLast bool // expand only the owned nodes of the last level
	Scratch   string
	Deadline  time.Time
	// OnTrans is called for every executed transition. owner is true on exactly
	// one shard per transition; newState when the successor state was not seen before.
	OnTrans func(t *Trans, owner, newState bool)
}

// Stats of one Explore run.
type Stats struct {
	StatesByDepth []int // new states per depth (depth 0 = initial)
	Executed      int   // transitions executed by this process
	Replays       int   // history replays (fresh snapshotter + root) needed for them
	Capped        bool
}

// Explore runs the search. It returns every state discovered (BFS order; the
// states of the last level only as far as this shard discovered them).
func Explore(o ExploreOpts) ([]Node, Stats, error) {
	if o.Of <= 0 {
		o.Of = 1
	}
	alpha := Alphabet()
	seen := map[string]bool{}
	var all []Node
	st := Stats{}
	// initial state
	init, err := RunInitial(o.Scratch, o.Async)
	if err != nil {
		return nil, st, err
	}
	seen[init.Hash] = true
	frontier := []Node{*init}
	all = append(all, *init)
	st.StatesByDepth = append(st.StatesByDepth, 1)
	for d := 0; d < o.Depth; d++ {
		last := d == o.Depth-1
		var next []Node
		for i, n := range frontier {
			owner := i%o.Of == o.Shard
			if last && o.ShardLast && !owner {
				continue
			}
			if n.Closed {
				continue
			}
			sess := &Session{Scratch: o.Scratch, Async: o.Async, Hist: n.Hist, Devs: n.Devs}
			for _, op := range alpha {
				var rec func(fails []string) error
				rec = func(fails []string) error {
					if !o.Deadline.IsZero() && time.Now().After(o.Deadline) {
						st.Capped = true
						return nil
					}
					step := Step{Op: op, Fails: append([]string(nil), fails...)}
					t, err := sess.Run(step)
					if err != nil {
						return fmt.Errorf("history [%s] then %s: %w", HistString(n.Hist), step, err)
					}
					st.Executed++
					t.FromHash, t.Depth, t.LastLevel = n.Hash, d+1, last
					if len(t.Res.Unused) > 0 {
						return fmt.Errorf("history [%s] then %s: scripted failures %v not consumed (non-deterministic backend call sequence)", HistString(n.Hist), step, t.Res.Unused)
					}
					isNew := !seen[t.Hash]
					if isNew {
						seen[t.Hash] = true
						h := append(append([]Step(nil), n.Hist...), step)
						nn := Node{Hist: h, Devs: t.Devs, Closed: t.Closed, Hash: t.Hash, Obs: t.Obs}
						next = append(next, nn)
						all = append(all, nn)
					}
					if o.OnTrans != nil {
						o.OnTrans(t, owner, isNew)
					}
					if t.Res.Panic == "" && t.Devs < o.MaxDev {
						for _, k := range FaultCandidates(t.Res.Calls, fails) {
							if err := rec(append(append([]string(nil), fails...), k)); err != nil {
								return err
							}
						}
					}
					return nil
				}
				if err := rec(nil); err != nil {
					sess.Close()
					return all, st, err
				}
				if st.Capped {
					sess.Close()
					return all, st, nil
				}
			}
			sess.Close()
			st.Replays += sess.Replays
		}
		st.StatesByDepth = append(st.StatesByDepth, len(next))
		frontier = next
	}
	return all, st, nil
}

// RunInitial computes the initial state (fresh snapshotter, no operation).
func RunInitial(scratch string, async bool) (*Node, error) {
	w, err := ReplayWorld(scratch, async, nil)
	if err != nil {
		return nil, err
	}
	defer w.Dispose()
	m, err := w.Meta()
	if err != nil {
		return nil, err
	}
	c := Canon(w.Root, m, w.FS.Table(), false)
	return &Node{Hash: hashStr(c + "|devs=0"), Obs: w.Observe(m)}, nil
}

// ---- exact distinct counts across shard processes ------------------------------------------

// SharedCount lets the shards of one part (separate worker processes of one
// master, running concurrently or one after the other) count the union of their
// item sets exactly: every shard drops its set into a directory shared by the
// run (next to the per-process scratch dirs), and the shard that completes the
// collection merges it and removes the directory. It returns (size of the union,
// true) on exactly one shard and (0, false) on the others.
func SharedCount(scratch, tag string, shard, of int, items []string) (int, bool) {
	// the run is identified by the master process: pid + start time
	ppid := os.Getppid()
	started := "0"
	if b, err := os.ReadFile(fmt.Sprintf("/proc/%d/stat", ppid)); err == nil {
		if i := strings.LastIndexByte(string(b), ')'); i >= 0 {
			if f := strings.Fields(string(b)[i+1:]); len(f) > 19 {
				started = f[19]
			}
		}
	}
	dir := filepath.Join(filepath.Dir(scratch), fmt.Sprintf("verif-shared-%d-%s-%s", ppid, started, tag))
	if err := os.MkdirAll(dir, 0o755); err != nil {
		return 0, false
	}
	tmp := filepath.Join(dir, fmt.Sprintf(".tmp-%d", shard))
	if err := os.WriteFile(tmp, []byte(strings.Join(items, "\n")), 0o644); err != nil {
		return 0, false
	}
	if err := os.Rename(tmp, filepath.Join(dir, fmt.Sprintf("set-%d", shard))); err != nil {
		return 0, false
	}
	for i := 0; i < of; i++ {
		if _, err := os.Stat(filepath.Join(dir, fmt.Sprintf("set-%d", i))); err != nil {
			return 0, false // somebody else will be last
		}
	}
	f, err := os.OpenFile(filepath.Join(dir, "merged"), os.O_CREATE|os.O_EXCL|os.O_WRONLY, 0o644)
	if err != nil {
		return 0, false
	}
	f.Close()
	union := map[string]struct{}{}
	for i := 0; i < of; i++ {
		b, _ := os.ReadFile(filepath.Join(dir, fmt.Sprintf("set-%d", i)))
		for _, l := range strings.Split(string(b), "\n") {
			if l != "" {
				union[l] = struct{}{}
			}
		}
	}
	os.RemoveAll(dir)
	return len(union), true
}
