// Package stack builds the full lazy-pulling stack used by several checks:
// tiny eStargz layers served by the in-memory registry, resolved through the
// real layer.Resolver (remote blob, chunk caches, metadata store, reader).
package stack

import (
	"archive/tar"
	"bytes"
	"compress/gzip"
	"context"
	"encoding/json"
	"fmt"
	"io"
	"os"
	"path/filepath"
	"sort"

	"github.com/containerd/containerd/v2/pkg/reference"
	"github.com/containerd/stargz-snapshotter/estargz"
	"github.com/containerd/stargz-snapshotter/fs/config"
	"github.com/containerd/stargz-snapshotter/fs/layer"
	"github.com/containerd/stargz-snapshotter/metadata"
	memorymetadata "github.com/containerd/stargz-snapshotter/metadata/memory"
	"github.com/containerd/stargz-snapshotter/task"
	digest "github.com/opencontainers/go-digest"
	ocispec "github.com/opencontainers/image-spec/specs-go/v1"

	"verif/lib/memreg"
)

// File is one regular file of a layer.
type File struct {
	Path string
	Size int
}

// LayerSpec describes a tiny layer.
type LayerSpec struct {
	Name        string
	Files       []File
	Prioritized []string
	ChunkSize   int
	MinChunk    int
	NoLandmark  bool // build with the plain Writer: no landmark entries at all
}

// Built is a built layer.
type Built struct {
	Spec      LayerSpec
	Blob      []byte
	Digest    digest.Digest
	TOCDigest digest.Digest
	Content   map[string][]byte // path -> bytes
	Desc      ocispec.Descriptor
}

// FileContent is the deterministic content of a file of a layer.
func FileContent(layer, path string, size int) []byte {
	b := make([]byte, size)
	seed := 0
	for _, c := range layer + "/" + path {
		seed = seed*31 + int(c)
	}
	for i := range b {
		b[i] = byte('a' + (seed+i*7)%26)
	}
	return b
}

// BuildTar renders the spec as a tar archive.
func BuildTar(spec LayerSpec) ([]byte, map[string][]byte) {
	var buf bytes.Buffer
	tw := tar.NewWriter(&buf)
	content := map[string][]byte{}
	dirs := map[string]bool{}
	for _, f := range spec.Files {
		d := filepath.Dir(f.Path)
		if d != "." && !dirs[d] {
			dirs[d] = true
			tw.WriteHeader(&tar.Header{Typeflag: tar.TypeDir, Name: d + "/", Mode: 0755})
		}
		c := FileContent(spec.Name, f.Path, f.Size)
		content[f.Path] = c
		tw.WriteHeader(&tar.Header{Typeflag: tar.TypeReg, Name: f.Path, Mode: 0644, Size: int64(len(c))})
		tw.Write(c)
	}
	tw.Close()
	return buf.Bytes(), content
}

// Build builds the eStargz blob of a spec.
func Build(spec LayerSpec) (*Built, error) {
	tarb, content := BuildTar(spec)
	out := &Built{Spec: spec, Content: content}
	if spec.NoLandmark {
		var buf bytes.Buffer
		w := estargz.NewWriter(&buf)
		if spec.ChunkSize > 0 {
			w.ChunkSize = spec.ChunkSize
		}
		if spec.MinChunk > 0 {
			w.MinChunkSize = spec.MinChunk
		}
		if err := w.AppendTar(bytes.NewReader(tarb)); err != nil {
			return nil, err
		}
		td, err := w.Close()
		if err != nil {
			return nil, err
		}
		out.Blob, out.TOCDigest = buf.Bytes(), td
	} else {
		opts := []estargz.Option{estargz.WithPrioritizedFiles(spec.Prioritized)}
		if spec.ChunkSize > 0 {
			opts = append(opts, estargz.WithChunkSize(spec.ChunkSize))
		}
		if spec.MinChunk > 0 {
			opts = append(opts, estargz.WithMinChunkSize(spec.MinChunk))
		}
		b, err := estargz.Build(io.NewSectionReader(bytes.NewReader(tarb), 0, int64(len(tarb))), opts...)
		if err != nil {
			return nil, err
		}
		defer b.Close()
		blob, err := io.ReadAll(b)
		if err != nil {
			return nil, err
		}
		out.Blob, out.TOCDigest = blob, b.TOCDigest()
	}
	out.Digest = digest.FromBytes(out.Blob)
	out.Desc = ocispec.Descriptor{MediaType: ocispec.MediaTypeImageLayerGzip, Digest: out.Digest, Size: int64(len(out.Blob)),
		Annotations: map[string]string{estargz.TOCJSONDigestAnnotation: out.TOCDigest.String()}}
	return out, nil
}

// Env is one resolver over one registry.
type Env struct {
	Reg  *memreg.Registry
	Root string
	Res  *layer.Resolver
	TM   *task.BackgroundTaskManager
	Cfg  config.Config
	Ref  reference.Spec
}

// NewEnv creates the resolver. store may be nil (memory metadata store).
func NewEnv(root string, cfg config.Config, store metadata.Store, reg *memreg.Registry) (*Env, error) {
	if store == nil {
		store = memorymetadata.NewReader
	}
	if reg == nil {
		reg = memreg.New()
	}
	conc := cfg.MaxConcurrency
	if conc == 0 {
		conc = 2
	}
	tm := task.NewBackgroundTaskManager(conc, 0)
	res, err := layer.NewResolver(root, tm, cfg, nil, store, layer.OverlayOpaqueAll, nil)
	if err != nil {
		return nil, err
	}
	ref, err := reference.Parse(reg.Host + "/img/x:latest")
	if err != nil {
		return nil, err
	}
	return &Env{Reg: reg, Root: root, Res: res, TM: tm, Cfg: cfg, Ref: ref}, nil
}

// Add registers a built layer in the registry.
func (e *Env) Add(b *Built) { e.Reg.AddBlob(b.Digest.String(), b.Blob) }

// Resolve resolves a layer.
func (e *Env) Resolve(b *Built) (layer.Layer, error) {
	return e.Res.Resolve(context.Background(), e.Reg.Hosts(nil), e.Ref, b.Desc)
}

// CacheDirs lists the per-layer / per-blob cache directories under the resolver root.
func (e *Env) CacheDirs() []string {
	var out []string
	for _, sub := range []string{"fscache", "httpcache"} {
		ents, err := os.ReadDir(filepath.Join(e.Root, sub))
		if err != nil {
			continue
		}
		for _, x := range ents {
			out = append(out, sub+"/"+x.Name())
		}
	}
	sort.Strings(out)
	return out
}

// OpenFDs returns the number of open file descriptors of this process that
// point below dir.
func OpenFDs(dir string) int {
	ents, err := os.ReadDir("/proc/self/fd")
	if err != nil {
		return -1
	}
	n := 0
	for _, x := range ents {
		t, err := os.Readlink("/proc/self/fd/" + x.Name())
		if err != nil {
			continue
		}
		if len(t) >= len(dir) && t[:len(dir)] == dir {
			n++
		}
	}
	return n
}

// OpenFDTargets lists the targets of open descriptors below dir.
func OpenFDTargets(dir string) []string {
	ents, _ := os.ReadDir("/proc/self/fd")
	var out []string
	for _, x := range ents {
		t, err := os.Readlink("/proc/self/fd/" + x.Name())
		if err == nil && len(t) >= len(dir) && t[:len(dir)] == dir {
			out = append(out, t[len(dir):])
		}
	}
	return out
}

// Describe is a short rendering for samples.
func (s LayerSpec) Describe() string {
	return fmt.Sprintf("%s files=%v prioritized=%v chunk=%d minchunk=%d nolandmark=%v", s.Name, s.Files, s.Prioritized, s.ChunkSize, s.MinChunk, s.NoLandmark)
}

// TOCOffsets parses the TOC of a gzip eStargz blob independently of the
// repository's reader (footer -> TOC member -> JSON) and returns name -> offset.
func TOCOffsets(blob []byte) (map[string]int64, error) {
	if len(blob) < 51 {
		return nil, fmt.Errorf("blob too short")
	}
	foot := blob[len(blob)-51:]
	zr, err := gzip.NewReader(bytes.NewReader(foot))
	if err != nil {
		return nil, err
	}
	extra := zr.Extra
	// extra = 'S','G', len(2), "%016xSTARGZ"
	if len(extra) < 4+16 {
		return nil, fmt.Errorf("bad footer extra %q", extra)
	}
	var tocOff int64
	if _, err := fmt.Sscanf(string(extra[4:20]), "%016x", &tocOff); err != nil {
		return nil, err
	}
	gz, err := gzip.NewReader(bytes.NewReader(blob[tocOff:]))
	if err != nil {
		return nil, err
	}
	gz.Multistream(false)
	tr := tar.NewReader(gz)
	if _, err := tr.Next(); err != nil {
		return nil, err
	}
	var toc struct {
		Entries []struct {
			Name   string `json:"name"`
			Offset int64  `json:"offset"`
		} `json:"entries"`
	}
	if err := json.NewDecoder(tr).Decode(&toc); err != nil {
		return nil, err
	}
	out := map[string]int64{}
	for _, e := range toc.Entries {
		if _, ok := out[e.Name]; !ok {
			out[e.Name] = e.Offset
		}
	}
	return out, nil
}
