// Package vexp is the stateless, deviation-bounded explorer: it re-executes a
// scenario under the vrt scheduler for every schedule with at most PB
// preemptions and DB environment deviations (depth-first over choice
// prefixes, as in iterative context bounding).
package vexp

import (
	"fmt"
	"regexp"
	"sort"
	"strings"
	"time"

	"github.com/containerd/stargz-snapshotter/estargz/vrt"
)

// Scenario is a closed driver. New is called outside the scheduler for every
// execution and returns the body (run as thread 0) and a check that is called
// after the execution ended (outside the scheduler).
type Scenario struct {
	Name          string
	New           func() (body func(), check func(res vrt.Result) (outcome string, err error))
	NoPreempt     func(kind string, obj any) bool
	KeepTimers    bool
	MaxSteps      int
	PollForeign   time.Duration
	LockDominance bool
	// Observer sees every event of every execution (tid, kind, object).
	Observer func(tid int, kind string, obj any)
	// StateCache prunes a subtree when the same (happens-before fingerprint,
	// next actor, remaining budget) was already explored. Sound when all
	// inter-thread communication goes through instrumented operations.
	StateCache bool
	// DeadlockOK: a terminal state with parked threads is not by itself a violation.
	DeadlockOK bool
}

// Options bound the exploration.
type Options struct {
	PB, DB int // preemption / deviation bound
	// FB bounds the number of non-default choices at points where the running thread cannot continue
	// (it blocked or finished): which of the other runnable threads goes next. 0 = unbounded.
	FB          int
	MaxExec     int64 // execution cap (0 = none)
	Deadline    time.Time
	Shard, Of   int // this worker explores subtrees k with k%Of==Shard at ShardLevel
	ShardLevel  int
	DetChecks   int // number of executions replayed a second time to prove determinism
	StopAtFirst bool
}

// Violation is one failing execution.
type Violation struct {
	Scenario string   `json:"scenario"`
	Choices  []int    `json:"choices"`
	Msg      string   `json:"msg"`
	Key      string   `json:"key"`
	Trace    []string `json:"trace,omitempty"`
	Stack    string   `json:"stack,omitempty"`
}

// Stats is what one exploration covered.
type Stats struct {
	Scenario     string         `json:"scenario"`
	PB           int            `json:"pb"`
	DB           int            `json:"db"`
	Executions   int64          `json:"executions"`
	Transitions  int64          `json:"transitions"` // scheduling points executed
	Choices      int64          `json:"choices"`     // choice points with >1 option
	MaxThreads   int            `json:"max_threads"`
	Outcomes     map[string]int `json:"outcomes"`
	TraceHashes  int            `json:"distinct_traces"`
	Deadlocks    int64          `json:"deadlocks"`
	StepCaps     int64          `json:"step_caps"`
	DetChecked   int            `json:"replay_determinism_checks"`
	Capped       bool           `json:"capped"`
	CapReason    string         `json:"cap_reason,omitempty"`
	Violations   []Violation    `json:"violations"`
	Broken       string         `json:"broken,omitempty"`
	Pruned       int64          `json:"pruned_subtrees"`
	StateKeys    int            `json:"state_keys"`
	FinalStates  int            `json:"distinct_final_states"`
	SampleTraces [][]string     `json:"sample_traces,omitempty"`
	hashes       map[uint64]struct{}
	finals       map[uint64]struct{}
}

type cpRec struct {
	kind       byte
	n          int
	curEnabled bool
	chosen     int
	fp         uint64
	opts       []uint64
}

type execution struct {
	cps    []cpRec
	res    vrt.Result
	out    string
	err    error
	broken string
}

// RunOnce executes the scenario following prefix (then defaults).
func RunOnce(sc *Scenario, prefix []int, expect []cpRec, trace bool) *execution {
	x := &execution{}
	body, check := sc.New()
	i := 0
	chooser := func(cp vrt.ChoicePoint) int {
		c := 0
		if i < len(prefix) {
			c = prefix[i]
			if expect != nil && i < len(expect) {
				e := expect[i]
				if e.kind != cp.Kind || (i < len(prefix)-1 && e.n != cp.N) || (i == len(prefix)-1 && e.n != cp.N) {
					if x.broken == "" {
						x.broken = fmt.Sprintf("replay divergence at choice %d: recorded kind=%c n=%d, now kind=%c n=%d", i, e.kind, e.n, cp.Kind, cp.N)
					}
				}
			}
			if c >= cp.N {
				if x.broken == "" {
					x.broken = fmt.Sprintf("replay divergence at choice %d: choice %d of %d", i, c, cp.N)
				}
				c = 0
			}
		}
		rec := cpRec{kind: cp.Kind, n: cp.N, curEnabled: cp.CurEnabled, chosen: c, fp: cp.FP}
		if sc.StateCache && i >= len(prefix) && cp.Opts != nil {
			rec.opts = append([]uint64(nil), cp.Opts...)
		}
		x.cps = append(x.cps, rec)
		i++
		return c
	}
	x.res = vrt.Run(vrt.Config{Chooser: chooser, MaxSteps: sc.MaxSteps, NoPreempt: sc.NoPreempt, KeepTimers: sc.KeepTimers,
		PollForeign: sc.PollForeign, TraceOn: trace, LockDominance: sc.LockDominance, Observer: sc.Observer}, body)
	if x.res.Broken != "" && x.broken == "" {
		x.broken = x.res.Broken
	}
	if x.broken != "" {
		return x
	}
	if x.res.Failure != nil {
		x.err = fmt.Errorf("%s", x.res.Failure.Msg)
		x.out = "failure"
		return x
	}
	if x.res.Deadlock && !sc.DeadlockOK {
		x.err = fmt.Errorf("deadlock: %s", strings.Join(x.res.Blocked, "; "))
		x.out = "deadlock"
		return x
	}
	if x.res.StepCap {
		x.out = "stepcap"
		return x
	}
	x.out, x.err = check(x.res)
	return x
}

func (x *execution) choices() []int {
	c := make([]int, len(x.cps))
	for i, p := range x.cps {
		c[i] = p.chosen
	}
	return c
}

// Explore runs the bounded exhaustive search.
func Explore(sc *Scenario, opt Options) *Stats {
	st := &Stats{Scenario: sc.Name, PB: opt.PB, DB: opt.DB, Outcomes: map[string]int{}, hashes: map[uint64]struct{}{}, finals: map[uint64]struct{}{}}
	if opt.Of <= 0 {
		opt.Of = 1
	}
	e := &explorer{sc: sc, opt: opt, st: st, seen: map[uint64]struct{}{}}
	e.explore(nil, nil, 0)
	st.TraceHashes = len(st.hashes)
	st.StateKeys = len(e.seen)
	st.FinalStates = len(st.finals)
	return st
}

type explorer struct {
	sc      *Scenario
	opt     Options
	st      *Stats
	counter int // subtree counter at shard level
	stop    bool
	seen    map[uint64]struct{}
}

// budgetKey: remaining budgets; with an unbounded preemption budget (PB<0)
// the preemption count is irrelevant to what remains to be explored.
func (e *explorer) budgetKey(cp, cd int) uint64 {
	if e.opt.PB < 0 {
		return uint64(e.opt.DB-cd) | 1<<40
	}
	return uint64(e.opt.PB-cp)<<8 | uint64(e.opt.DB-cd)
}

// freeKey: the number of free switches taken so far matters for what remains to be explored only when
// they are bounded.
func (e *explorer) freeKey(cf int) uint64 {
	if e.opt.FB <= 0 {
		return 0
	}
	return uint64(cf) << 20
}

func mix(a, b uint64) uint64 {
	x := a*0x9E3779B97F4A7C15 ^ (b + 0x7F4A7C159E3779B9 + (a << 6) + (a >> 2))
	x ^= x >> 31
	x *= 0xBF58476D1CE4E5B9
	x ^= x >> 29
	return x
}

func (e *explorer) capped() bool {
	if e.stop {
		return true
	}
	if e.opt.MaxExec > 0 && e.st.Executions >= e.opt.MaxExec {
		e.st.Capped, e.st.CapReason = true, fmt.Sprintf("execution cap %d", e.opt.MaxExec)
		e.stop = true
		return true
	}
	if !e.opt.Deadline.IsZero() && time.Now().After(e.opt.Deadline) {
		e.st.Capped, e.st.CapReason = true, "time budget"
		e.stop = true
		return true
	}
	return false
}

func (e *explorer) explore(prefix []int, expect []cpRec, level int) {
	if e.capped() {
		return
	}
	mine := true // does this worker own (count) this node?
	if e.opt.Of > 1 {
		if level < e.opt.ShardLevel {
			mine = e.opt.Shard == 0
		} else if level == e.opt.ShardLevel {
			k := e.counter
			e.counter++
			if k%e.opt.Of != e.opt.Shard {
				return
			}
		}
	}
	wantTrace := len(e.st.SampleTraces) < 2 && mine
	x := RunOnce(e.sc, prefix, expect, wantTrace)
	if x.broken != "" {
		e.st.Broken = x.broken + fmt.Sprintf(" (prefix %v)", prefix)
		e.stop = true
		return
	}
	if mine {
		e.record(x, prefix)
	}
	if e.stop {
		return
	}
	// children
	pre, dev, free := 0, 0, 0
	for i := 0; i < len(x.cps); i++ {
		p := x.cps[i]
		if i >= len(prefix) {
			for alt := 1; alt < p.n; alt++ {
				cp, cd, cf := pre, dev, free
				switch p.kind {
				case 'T':
					if p.curEnabled {
						cp++
					} else {
						cf++
					}
				case 'S':
					cp++
				case 'E':
					cd++
				}
				if (e.opt.PB >= 0 && cp > e.opt.PB) || cd > e.opt.DB || (e.opt.FB > 0 && cf > e.opt.FB) {
					continue
				}
				if e.sc.StateCache && p.opts != nil && alt < len(p.opts) {
					k := mix(mix(p.fp, p.opts[alt]), mix(e.budgetKey(cp, cd)^e.freeKey(cf), uint64(p.kind)))
					if _, ok := e.seen[k]; ok {
						e.st.Pruned++
						continue
					}
					e.seen[k] = struct{}{}
				}
				child := make([]int, i+1)
				for j := 0; j < i; j++ {
					child[j] = x.cps[j].chosen
				}
				child[i] = alt
				e.explore(child, x.cps[:i+1], level+1)
				if e.stop {
					return
				}
			}
		}
		// account the cost of the choice actually taken
		if p.chosen != 0 {
			switch p.kind {
			case 'T':
				if p.curEnabled {
					pre++
				} else {
					free++
				}
			case 'S':
				pre++
			case 'E':
				dev++
			}
		}
	}
}

func (e *explorer) record(x *execution, prefix []int) {
	st := e.st
	st.Executions++
	st.Transitions += int64(x.res.Steps)
	st.Choices += int64(len(x.cps))
	if x.res.Threads > st.MaxThreads {
		st.MaxThreads = x.res.Threads
	}
	st.hashes[x.res.TraceHash] = struct{}{}
	st.finals[x.res.FinalFP] = struct{}{}
	st.Outcomes[x.out]++
	if x.res.Deadlock {
		st.Deadlocks++
	}
	if x.res.StepCap {
		st.StepCaps++
		st.Capped, st.CapReason = true, "step horizon hit in some executions"
	}
	if x.res.Trace != nil && len(st.SampleTraces) < 2 {
		t := x.res.Trace
		if len(t) > 60 {
			t = append(append([]string{}, t[:60]...), "...")
		}
		st.SampleTraces = append(st.SampleTraces, t)
	}
	if st.DetChecked < e.opt.DetChecks {
		y := RunOnce(e.sc, x.choices(), x.cps, false)
		st.DetChecked++
		if y.broken != "" || y.res.TraceHash != x.res.TraceHash || y.out != x.out {
			st.Broken = fmt.Sprintf("non-deterministic replay of %v: hash %x vs %x, outcome %q vs %q %s", x.choices(), x.res.TraceHash, y.res.TraceHash, x.out, y.out, y.broken)
			e.stop = true
			return
		}
	}
	if x.err != nil {
		// replay twice more before believing it
		ch := x.choices()
		for k := 0; k < 2; k++ {
			y := RunOnce(e.sc, ch, x.cps, false)
			if y.broken != "" || y.err == nil || normMsg(y.err.Error()) != normMsg(x.err.Error()) {
				st.Broken = fmt.Sprintf("violation not reproducible on replay %d of %v: first %q then %v %s", k+1, ch, x.err, y.err, y.broken)
				e.stop = true
				return
			}
		}
		t := RunOnce(e.sc, ch, x.cps, true)
		v := Violation{Scenario: e.sc.Name, Choices: ch, Msg: x.err.Error(), Trace: t.res.Trace}
		if x.res.Failure != nil {
			v.Stack = x.res.Failure.Stack
		}
		if len(st.Violations) < 20 {
			st.Violations = append(st.Violations, v)
		}
		if e.opt.StopAtFirst {
			e.stop = true
		}
	}
}

var digitsRE = regexp.MustCompile(`[0-9]+`)

// normMsg makes messages comparable across executions (temp names, addresses).
func normMsg(m string) string { return digitsRE.ReplaceAllString(m, "N") }

// Merge adds b into a.
func Merge(a, b *Stats) {
	a.Executions += b.Executions
	a.Transitions += b.Transitions
	a.Choices += b.Choices
	if b.MaxThreads > a.MaxThreads {
		a.MaxThreads = b.MaxThreads
	}
	if a.Outcomes == nil {
		a.Outcomes = map[string]int{}
	}
	for k, v := range b.Outcomes {
		a.Outcomes[k] += v
	}
	a.TraceHashes += b.TraceHashes
	a.Pruned += b.Pruned
	a.StateKeys += b.StateKeys
	a.FinalStates += b.FinalStates
	a.Deadlocks += b.Deadlocks
	a.StepCaps += b.StepCaps
	a.DetChecked += b.DetChecked
	if b.Capped {
		a.Capped = true
		a.CapReason = b.CapReason
	}
	a.Violations = append(a.Violations, b.Violations...)
	if b.Broken != "" && a.Broken == "" {
		a.Broken = b.Broken
	}
	for _, t := range b.SampleTraces {
		if len(a.SampleTraces) < 2 {
			a.SampleTraces = append(a.SampleTraces, t)
		}
	}
}

// OutcomeList renders outcomes sorted.
func (s *Stats) OutcomeList() []string {
	var out []string
	for k, v := range s.Outcomes {
		out = append(out, fmt.Sprintf("%s x%d", k, v))
	}
	sort.Strings(out)
	return out
}

// Replay re-executes one recorded choice list with tracing.
func Replay(sc *Scenario, choices []int) (outcome string, err error, trace []string, broken string) {
	x := RunOnce(sc, choices, nil, true)
	return x.out, x.err, x.res.Trace, x.broken
}

// RacePass runs the scenario body n times free-running (no scheduler). It is meant for binaries
// built with -race: the detector's reports (stderr / GORACE log_path) are the output; the return
// value is the number of bodies that completed.
func RacePass(sc *Scenario, n int) (completed int, panics []string) {
	vrt.FreeRunning = true
	defer func() { vrt.FreeRunning = false }()
	for i := 0; i < n; i++ {
		func() {
			defer func() {
				if r := recover(); r != nil {
					panics = append(panics, fmt.Sprint(r))
				}
			}()
			body, check := sc.New()
			body()
			check(vrt.Result{})
			completed++
		}()
	}
	return completed, panics
}
