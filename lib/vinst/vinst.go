// Package vinst rewrites repository source files so that every
// synchronisation operation goes through the vrt scheduler. It is purely
// syntactic (go/ast): imports of sync, sync/atomic, time and x/sync are
// redirected to shim packages with the same API; go statements, channel
// operations, close and select are rewritten to vrt calls. Constructs it does
// not understand are hard errors.
package vinst

import (
	"bytes"
	"encoding/json"
	"fmt"
	"go/ast"
	"go/format"
	"go/parser"
	"go/token"
	"os"
	"path/filepath"
	"regexp"
	"sort"
	"strconv"
	"strings"
)

const VrtPath = "github.com/containerd/stargz-snapshotter/estargz/vrt"

// Config selects what to instrument for one check binary.
type Config struct {
	Repo  string   `json:"repo"`  // /repo
	Verif string   `json:"verif"` // /verif
	Out   string   `json:"out"`   // build dir for generated files
	Files []string `json:"files"` // repo-relative files to instrument
	XSync []string `json:"xsync"` // x/sync sub-packages to copy+instrument
	// NoTime lists files whose "time" import is left real.
	NoTime []string `json:"no_time"`
	// OSSeam lists files whose "os" import is redirected to the vos shim (namespace operations become visible events).
	OSSeam []string `json:"os_seam"`
	// NoCtx lists files whose "context" import is left real.
	NoCtx []string `json:"no_ctx"`
	// SortRange: file -> range expressions (source text) that are maps and must be iterated in sorted key order.
	SortRange map[string][]string `json:"sort_range"`
	// Watch: file -> field/identifier names; a scheduling point is put before each statement touching x.<name>.
	Watch map[string][]string `json:"watch"`
	// MapRW: file -> map expression source texts whose writes/reads get the runtime's concurrent-map-access check.
	MapRW map[string][]string `json:"map_rw"`
	// Crash lists files that get a vrt.Crash hook before every statement.
	Crash []string `json:"crash"`
	// Add: repo-relative destination -> source file (copied verbatim into the overlay; harness code living inside repo packages).
	Add map[string]string `json:"add"`
	// Seams: file -> {"pkg.Func": "replacement expr"} textual call substitution on selector expressions.
	Seams map[string]map[string]string `json:"seams"`
	// Override: repo-relative file -> alternative source path (a patched copy); used to test
	// candidate changes without touching /repo. Non-instrumented overrides are simply overlaid.
	Override map[string]string `json:"override"`
	// ExtraImports: file -> import paths to add (for seams).
	ExtraImports map[string]map[string]string `json:"extra_imports"`
}

type Overlay struct {
	Replace map[string]string `json:"Replace"`
}

// Generate writes instrumented files and returns the overlay.
func Generate(cfg Config) (*Overlay, error) {
	ov := &Overlay{Replace: map[string]string{}}
	if err := os.MkdirAll(cfg.Out, 0o755); err != nil {
		return nil, err
	}
	// the runtime itself
	vrtDst := filepath.Join(cfg.Repo, "estargz", "vrt")
	err := filepath.Walk(filepath.Join(cfg.Verif, "vrt"), func(p string, fi os.FileInfo, err error) error {
		if err != nil {
			return err
		}
		if fi.IsDir() || !strings.HasSuffix(p, ".go") {
			return nil
		}
		rel, _ := filepath.Rel(filepath.Join(cfg.Verif, "vrt"), p)
		ov.Replace[filepath.Join(vrtDst, rel)] = p
		return nil
	})
	if err != nil {
		return nil, err
	}
	in := func(list []string, f string) bool {
		for _, x := range list {
			if x == f {
				return true
			}
		}
		return false
	}
	for _, f := range cfg.Files {
		src := filepath.Join(cfg.Repo, f)
		opt := fileOpts{
			time:      !in(cfg.NoTime, f),
			noCtx:     in(cfg.NoCtx, f),
			osSeam:    in(cfg.OSSeam, f),
			sortRange: cfg.SortRange[f],
			watch:     cfg.Watch[f],
			mapRW:     cfg.MapRW[f],
			crash:     in(cfg.Crash, f),
			seams:     cfg.Seams[f],
			extraImp:  cfg.ExtraImports[f],
			label:     f,
		}
		from := src
		if o, ok := cfg.Override[f]; ok {
			from = o
		}
		out, err := InstrumentFile(from, opt)
		if err != nil {
			return nil, fmt.Errorf("%s: %w", f, err)
		}
		dst := filepath.Join(cfg.Out, "src", f)
		if err := writeFile(dst, out); err != nil {
			return nil, err
		}
		ov.Replace[src] = dst
	}
	if len(cfg.XSync) > 0 {
		ver, err := xsyncVersion(cfg.Repo)
		if err != nil {
			return nil, err
		}
		modcache := os.Getenv("GOMODCACHE")
		if modcache == "" {
			home, _ := os.UserHomeDir()
			modcache = filepath.Join(home, "go", "pkg", "mod")
		}
		for _, pkg := range cfg.XSync {
			dir := filepath.Join(modcache, "golang.org", "x", "sync@"+ver, pkg)
			ents, err := os.ReadDir(dir)
			if err != nil {
				return nil, fmt.Errorf("x/sync/%s: %w", pkg, err)
			}
			for _, e := range ents {
				n := e.Name()
				if !strings.HasSuffix(n, ".go") || strings.HasSuffix(n, "_test.go") {
					continue
				}
				out, err := InstrumentFile(filepath.Join(dir, n), fileOpts{time: true, label: "xsync/" + pkg + "/" + n})
				if err != nil {
					return nil, fmt.Errorf("x/sync/%s/%s: %w", pkg, n, err)
				}
				dst := filepath.Join(cfg.Out, "src", "xsync", pkg, n)
				if err := writeFile(dst, out); err != nil {
					return nil, err
				}
				ov.Replace[filepath.Join(vrtDst, "xsync", pkg, n)] = dst
			}
		}
	}
	for dstRel, src := range cfg.Add {
		ov.Replace[filepath.Join(cfg.Repo, dstRel)] = src
	}
	for rel, src := range cfg.Override {
		if _, done := ov.Replace[filepath.Join(cfg.Repo, rel)]; !done {
			ov.Replace[filepath.Join(cfg.Repo, rel)] = src
		}
	}
	b, _ := json.MarshalIndent(ov, "", " ")
	if err := writeFile(filepath.Join(cfg.Out, "overlay.json"), b); err != nil {
		return nil, err
	}
	return ov, nil
}

func writeFile(p string, b []byte) error {
	if err := os.MkdirAll(filepath.Dir(p), 0o755); err != nil {
		return err
	}
	return os.WriteFile(p, b, 0o644)
}

func xsyncVersion(repo string) (string, error) {
	b, err := os.ReadFile(filepath.Join(repo, "go.mod"))
	if err != nil {
		return "", err
	}
	m := regexp.MustCompile(`golang.org/x/sync (v[0-9.]+)`).FindSubmatch(b)
	if m == nil {
		return "", fmt.Errorf("x/sync version not found in go.mod")
	}
	return string(m[1]), nil
}

type fileOpts struct {
	time      bool
	sortRange []string
	watch     []string
	mapRW     []string
	crash     bool
	seams     map[string]string
	extraImp  map[string]string
	label     string
	noCtx     bool
	osSeam    bool
}

var importMap = map[string]string{
	"sync":                           VrtPath + "/vsync",
	"sync/atomic":                    VrtPath + "/vatomic",
	"context":                        VrtPath + "/vctx",
	"golang.org/x/sync/errgroup":     VrtPath + "/xsync/errgroup",
	"golang.org/x/sync/semaphore":    VrtPath + "/xsync/semaphore",
	"golang.org/x/sync/singleflight": VrtPath + "/xsync/singleflight",
}

var defaultName = map[string]string{
	"sync": "sync", "sync/atomic": "atomic", "time": "time", "context": "context", "os": "os",
	"golang.org/x/sync/errgroup": "errgroup", "golang.org/x/sync/semaphore": "semaphore",
	"golang.org/x/sync/singleflight": "singleflight",
}

type inst struct {
	fset    *token.FileSet
	opt     fileOpts
	src     []byte
	usesVrt bool
	tmp     int
	errs    []string
}

func (in *inst) text(n ast.Node) string {
	return string(in.src[in.fset.Position(n.Pos()).Offset:in.fset.Position(n.End()).Offset])
}

func (in *inst) errf(n ast.Node, format string, a ...any) {
	in.errs = append(in.errs, fmt.Sprintf("%s: %s", in.fset.Position(n.Pos()), fmt.Sprintf(format, a...)))
}

func vrtCall(name string, args ...ast.Expr) *ast.CallExpr {
	return &ast.CallExpr{Fun: &ast.SelectorExpr{X: ast.NewIdent("vrt"), Sel: ast.NewIdent(name)}, Args: args}
}

func strLit(s string) ast.Expr { return &ast.BasicLit{Kind: token.STRING, Value: strconv.Quote(s)} }

// InstrumentFile returns the rewritten source of one file.
func InstrumentFile(path string, opt fileOpts) ([]byte, error) {
	src, err := os.ReadFile(path)
	if err != nil {
		return nil, err
	}
	fset := token.NewFileSet()
	f, err := parser.ParseFile(fset, path, src, parser.ParseComments)
	if err != nil {
		return nil, err
	}
	in := &inst{fset: fset, opt: opt, src: src}
	// imports
	for _, imp := range f.Imports {
		p, _ := strconv.Unquote(imp.Path.Value)
		np, ok := importMap[p]
		if p == "time" && opt.time {
			np, ok = VrtPath+"/vtime", true
		}
		if p == "context" && opt.noCtx {
			ok = false
		}
		if p == "os" && opt.osSeam {
			np, ok = VrtPath+"/vos", true
		}
		if !ok {
			continue
		}
		if imp.Name == nil {
			imp.Name = ast.NewIdent(defaultName[p])
		}
		imp.Path.Value = strconv.Quote(np)
	}
	// Comments are dropped from function bodies to keep the printer from
	// misplacing them after rewriting; keep only the file's leading comments
	// (build tags, license) and doc comments.
	var keep []*ast.CommentGroup
	for _, cg := range f.Comments {
		if cg.End() < f.Package {
			keep = append(keep, cg)
		}
	}
	f.Comments = keep
	for _, d := range f.Decls {
		switch d := d.(type) {
		case *ast.FuncDecl:
			d.Doc = nil
			if d.Body != nil {
				in.block(d.Body)
			}
		case *ast.GenDecl:
			d.Doc = nil
			for _, sp := range d.Specs {
				switch sp := sp.(type) {
				case *ast.ValueSpec:
					sp.Doc, sp.Comment = nil, nil
					for i := range sp.Values {
						sp.Values[i] = in.expr(sp.Values[i])
					}
				case *ast.TypeSpec:
					sp.Doc, sp.Comment = nil, nil
					stripFieldComments(sp.Type)
				}
			}
		}
	}
	if len(in.errs) > 0 {
		return nil, fmt.Errorf("unsupported constructs:\n  %s", strings.Join(in.errs, "\n  "))
	}
	if in.usesVrt || len(opt.extraImp) > 0 {
		addImport(f, "vrt", VrtPath)
		names := make([]string, 0, len(opt.extraImp))
		for n := range opt.extraImp {
			names = append(names, n)
		}
		sort.Strings(names)
		for _, n := range names {
			addImport(f, n, opt.extraImp[n])
		}
	}
	var buf bytes.Buffer
	if err := format.Node(&buf, fset, f); err != nil {
		return nil, err
	}
	out := buf.Bytes()
	if in.usesVrt {
		out = append(out, []byte("\nvar _ = vrt.Active\n")...)
	}
	return out, nil
}

func stripFieldComments(t ast.Expr) {
	ast.Inspect(t, func(n ast.Node) bool {
		if fl, ok := n.(*ast.Field); ok {
			fl.Doc, fl.Comment = nil, nil
		}
		return true
	})
}

func addImport(f *ast.File, name, path string) {
	for _, imp := range f.Imports {
		if p, _ := strconv.Unquote(imp.Path.Value); p == path {
			return
		}
	}
	spec := &ast.ImportSpec{Name: ast.NewIdent(name), Path: &ast.BasicLit{Kind: token.STRING, Value: strconv.Quote(path)}}
	gd := &ast.GenDecl{Tok: token.IMPORT, Specs: []ast.Spec{spec}}
	f.Decls = append([]ast.Decl{gd}, f.Decls...)
	f.Imports = append(f.Imports, spec)
}

func (in *inst) block(b *ast.BlockStmt) {
	if b == nil {
		return
	}
	b.List = in.stmts(b.List)
}

func (in *inst) stmts(list []ast.Stmt) []ast.Stmt {
	var out []ast.Stmt
	for _, s := range list {
		pre := in.prefix(s)
		ns := in.stmt(s)
		out = append(out, pre...)
		out = append(out, ns...)
	}
	return out
}

// prefix returns hook statements to be inserted before s.
func (in *inst) prefix(s ast.Stmt) []ast.Stmt {
	var pre []ast.Stmt
	if in.opt.crash {
		if _, isLabeled := s.(*ast.LabeledStmt); !isLabeled {
			in.usesVrt = true
			pos := in.fset.Position(s.Pos())
			pre = append(pre, &ast.ExprStmt{X: vrtCall("Crash", strLit(fmt.Sprintf("%s:%d", in.opt.label, pos.Line)))})
		}
	}
	if len(in.opt.watch) > 0 {
		if name := in.touchesWatched(s); name != "" {
			in.usesVrt = true
			pre = append(pre, &ast.ExprStmt{X: vrtCall("Point", strLit("field"), strLit(name))})
		}
	}
	if len(in.opt.mapRW) > 0 {
		if w, name := in.mapAccess(s); name != "" {
			in.usesVrt = true
			if w {
				pre = append(pre, &ast.ExprStmt{X: vrtCall("MapWrite", strLit(name))})
			} else {
				pre = append(pre, &ast.ExprStmt{X: vrtCall("MapRead", strLit(name))})
			}
		}
	}
	return pre
}

// header returns the parts of s evaluated "at" s itself (not nested bodies).
func header(s ast.Stmt) []ast.Node {
	switch s := s.(type) {
	case *ast.IfStmt:
		return nn(s.Init, s.Cond)
	case *ast.ForStmt:
		return nn(s.Init, s.Cond, s.Post)
	case *ast.RangeStmt:
		return nn(s.X)
	case *ast.SwitchStmt:
		return nn(s.Init, s.Tag)
	case *ast.TypeSwitchStmt:
		return nn(s.Init, s.Assign)
	case *ast.BlockStmt, *ast.SelectStmt, *ast.LabeledStmt, *ast.CaseClause, *ast.CommClause:
		return nil
	case nil:
		return nil
	}
	return []ast.Node{s}
}

func nn(xs ...ast.Node) []ast.Node {
	var out []ast.Node
	for _, x := range xs {
		if x == nil {
			continue
		}
		switch v := x.(type) {
		case ast.Stmt:
			if v == nil {
				continue
			}
		case ast.Expr:
			if v == nil {
				continue
			}
		}
		out = append(out, x)
	}
	return out
}

func isNilNode(n ast.Node) bool {
	switch v := n.(type) {
	case *ast.AssignStmt:
		return v == nil
	case *ast.ExprStmt:
		return v == nil
	case *ast.IncDecStmt:
		return v == nil
	}
	return n == nil
}

func (in *inst) touchesWatched(s ast.Stmt) string {
	found := ""
	for _, h := range header(s) {
		if isNilNode(h) {
			continue
		}
		ast.Inspect(h, func(n ast.Node) bool {
			if found != "" {
				return false
			}
			if _, ok := n.(*ast.FuncLit); ok {
				return false
			}
			if se, ok := n.(*ast.SelectorExpr); ok {
				for _, w := range in.opt.watch {
					if se.Sel.Name == w {
						found = w
						return false
					}
				}
			}
			return true
		})
	}
	return found
}

func (in *inst) mapAccess(s ast.Stmt) (write bool, name string) {
	is := func(e ast.Expr) string {
		t := in.safeText(e)
		for _, m := range in.opt.mapRW {
			if t == m {
				return m
			}
		}
		return ""
	}
	if as, ok := s.(*ast.AssignStmt); ok {
		for _, l := range as.Lhs {
			if ix, ok := l.(*ast.IndexExpr); ok {
				if n := is(ix.X); n != "" {
					return true, n
				}
			}
		}
	}
	if es, ok := s.(*ast.ExprStmt); ok {
		if c, ok := es.X.(*ast.CallExpr); ok {
			if id, ok := c.Fun.(*ast.Ident); ok && id.Name == "delete" && len(c.Args) == 2 {
				if n := is(c.Args[0]); n != "" {
					return true, n
				}
			}
		}
	}
	for _, h := range header(s) {
		if isNilNode(h) {
			continue
		}
		ast.Inspect(h, func(n ast.Node) bool {
			if name != "" {
				return false
			}
			if _, ok := n.(*ast.FuncLit); ok {
				return false
			}
			if ix, ok := n.(*ast.IndexExpr); ok {
				if m := is(ix.X); m != "" {
					name = m
				}
			}
			if r, ok := n.(*ast.RangeStmt); ok {
				if m := is(r.X); m != "" {
					name = m
				}
			}
			return true
		})
	}
	return false, name
}

func (in *inst) safeText(n ast.Node) string {
	if !n.Pos().IsValid() || !n.End().IsValid() {
		return ""
	}
	a, b := in.fset.Position(n.Pos()).Offset, in.fset.Position(n.End()).Offset
	if a < 0 || b > len(in.src) || a > b {
		return ""
	}
	return string(in.src[a:b])
}

// stmt rewrites one statement; it may expand into several.
func (in *inst) stmt(s ast.Stmt) []ast.Stmt {
	switch s := s.(type) {
	case nil:
		return nil
	case *ast.GoStmt:
		return []ast.Stmt{in.goStmt(s)}
	case *ast.SendStmt:
		in.usesVrt = true
		return []ast.Stmt{&ast.ExprStmt{X: vrtCall("Send", in.expr(s.Chan), in.expr(s.Value))}}
	case *ast.SelectStmt:
		return []ast.Stmt{in.selectStmt(s)}
	case *ast.LabeledStmt:
		inner := in.stmt(s.Stmt)
		if len(inner) != 1 {
			in.errf(s, "labeled statement expanded to %d statements", len(inner))
			return []ast.Stmt{s}
		}
		s.Stmt = inner[0]
		return []ast.Stmt{s}
	case *ast.BlockStmt:
		in.block(s)
		return []ast.Stmt{s}
	case *ast.IfStmt:
		s.Init = in.simple(s.Init)
		s.Cond = in.expr(s.Cond)
		in.block(s.Body)
		if s.Else != nil {
			e := in.stmt(s.Else)
			s.Else = e[0]
		}
		return []ast.Stmt{s}
	case *ast.ForStmt:
		s.Init = in.simple(s.Init)
		if s.Cond != nil {
			s.Cond = in.expr(s.Cond)
		}
		s.Post = in.simple(s.Post)
		in.block(s.Body)
		return []ast.Stmt{s}
	case *ast.RangeStmt:
		return []ast.Stmt{in.rangeStmt(s)}
	case *ast.SwitchStmt:
		s.Init = in.simple(s.Init)
		if s.Tag != nil {
			s.Tag = in.expr(s.Tag)
		}
		for _, c := range s.Body.List {
			cc := c.(*ast.CaseClause)
			for i := range cc.List {
				cc.List[i] = in.expr(cc.List[i])
			}
			cc.Body = in.stmts(cc.Body)
		}
		return []ast.Stmt{s}
	case *ast.TypeSwitchStmt:
		s.Init = in.simple(s.Init)
		s.Assign = in.simple(s.Assign)
		for _, c := range s.Body.List {
			cc := c.(*ast.CaseClause)
			cc.Body = in.stmts(cc.Body)
		}
		return []ast.Stmt{s}
	case *ast.AssignStmt, *ast.ExprStmt, *ast.IncDecStmt, *ast.DeclStmt:
		return []ast.Stmt{in.simple(s)}
	case *ast.ReturnStmt:
		for i := range s.Results {
			s.Results[i] = in.expr(s.Results[i])
		}
		return []ast.Stmt{s}
	case *ast.DeferStmt:
		s.Call = in.expr(s.Call).(*ast.CallExpr)
		return []ast.Stmt{s}
	case *ast.BranchStmt, *ast.EmptyStmt:
		return []ast.Stmt{s}
	}
	in.errf(s, "unhandled statement %T", s)
	return []ast.Stmt{s}
}

func (in *inst) simple(s ast.Stmt) ast.Stmt {
	switch s := s.(type) {
	case nil:
		return nil
	case *ast.AssignStmt:
		if s == nil {
			return nil
		}
		if len(s.Lhs) == 2 && len(s.Rhs) == 1 {
			if u, ok := s.Rhs[0].(*ast.UnaryExpr); ok && u.Op == token.ARROW {
				in.usesVrt = true
				s.Rhs[0] = vrtCall("Recv2", in.expr(u.X))
				for i := range s.Lhs {
					s.Lhs[i] = in.expr(s.Lhs[i])
				}
				return s
			}
		}
		for i := range s.Lhs {
			s.Lhs[i] = in.expr(s.Lhs[i])
		}
		for i := range s.Rhs {
			s.Rhs[i] = in.expr(s.Rhs[i])
		}
		return s
	case *ast.ExprStmt:
		if s == nil {
			return nil
		}
		s.X = in.expr(s.X)
		return s
	case *ast.IncDecStmt:
		if s == nil {
			return nil
		}
		s.X = in.expr(s.X)
		return s
	case *ast.SendStmt:
		in.usesVrt = true
		return &ast.ExprStmt{X: vrtCall("Send", in.expr(s.Chan), in.expr(s.Value))}
	case *ast.DeclStmt:
		if gd, ok := s.Decl.(*ast.GenDecl); ok {
			for _, sp := range gd.Specs {
				if vs, ok := sp.(*ast.ValueSpec); ok {
					if len(vs.Names) == 2 && len(vs.Values) == 1 {
						if u, ok := vs.Values[0].(*ast.UnaryExpr); ok && u.Op == token.ARROW {
							in.usesVrt = true
							vs.Values[0] = vrtCall("Recv2", in.expr(u.X))
							continue
						}
					}
					for i := range vs.Values {
						vs.Values[i] = in.expr(vs.Values[i])
					}
				}
			}
		}
		return s
	}
	in.errf(s, "unhandled simple statement %T", s)
	return s
}

// expr rewrites receive expressions, close calls, seams and function literals inside e.
func (in *inst) expr(e ast.Expr) ast.Expr {
	if e == nil {
		return nil
	}
	switch e := e.(type) {
	case *ast.UnaryExpr:
		if e.Op == token.ARROW {
			in.usesVrt = true
			return vrtCall("Recv", in.expr(e.X))
		}
		e.X = in.expr(e.X)
		return e
	case *ast.FuncLit:
		in.block(e.Body)
		return e
	case *ast.CallExpr:
		if id, ok := e.Fun.(*ast.Ident); ok && id.Name == "close" && len(e.Args) == 1 {
			in.usesVrt = true
			return vrtCall("Close", in.expr(e.Args[0]))
		}
		if len(in.opt.seams) > 0 {
			if rep, ok := in.opt.seams[in.safeText(e.Fun)]; ok {
				x, err := parser.ParseExpr(rep)
				if err != nil {
					in.errf(e, "bad seam replacement %q: %v", rep, err)
				} else {
					e.Fun = x
				}
			}
		}
		e.Fun = in.expr(e.Fun)
		for i := range e.Args {
			e.Args[i] = in.expr(e.Args[i])
		}
		return e
	case *ast.BinaryExpr:
		e.X, e.Y = in.expr(e.X), in.expr(e.Y)
		return e
	case *ast.ParenExpr:
		e.X = in.expr(e.X)
		return e
	case *ast.SelectorExpr:
		e.X = in.expr(e.X)
		return e
	case *ast.IndexExpr:
		e.X, e.Index = in.expr(e.X), in.expr(e.Index)
		return e
	case *ast.SliceExpr:
		e.X, e.Low, e.High, e.Max = in.expr(e.X), in.expr(e.Low), in.expr(e.High), in.expr(e.Max)
		return e
	case *ast.StarExpr:
		e.X = in.expr(e.X)
		return e
	case *ast.TypeAssertExpr:
		e.X = in.expr(e.X)
		return e
	case *ast.CompositeLit:
		for i := range e.Elts {
			e.Elts[i] = in.expr(e.Elts[i])
		}
		return e
	case *ast.KeyValueExpr:
		e.Key, e.Value = in.expr(e.Key), in.expr(e.Value)
		return e
	}
	return e
}

func (in *inst) goStmt(s *ast.GoStmt) ast.Stmt {
	in.usesVrt = true
	call := s.Call
	call.Fun = in.expr(call.Fun)
	for i := range call.Args {
		call.Args[i] = in.expr(call.Args[i])
	}
	if len(call.Args) == 0 {
		if fl, ok := call.Fun.(*ast.FuncLit); ok && (fl.Type.Results == nil || len(fl.Type.Results.List) == 0) {
			return &ast.ExprStmt{X: vrtCall("Go", fl)}
		}
		return &ast.ExprStmt{X: vrtCall("Go", &ast.FuncLit{Type: &ast.FuncType{Params: &ast.FieldList{}},
			Body: &ast.BlockStmt{List: []ast.Stmt{&ast.ExprStmt{X: call}}}})}
	}
	// evaluate arguments eagerly: func() func() { a0, a1 := x, y; return func() { f(a0, a1) } }()
	var lhs, rhs, args []ast.Expr
	for i, a := range call.Args {
		in.tmp++
		id := ast.NewIdent(fmt.Sprintf("vrtArg%d_%d", in.tmp, i))
		lhs = append(lhs, id)
		rhs = append(rhs, a)
		args = append(args, ast.NewIdent(id.Name))
	}
	inner := &ast.CallExpr{Fun: call.Fun, Args: args, Ellipsis: call.Ellipsis}
	if call.Ellipsis.IsValid() {
		inner.Ellipsis = token.Pos(1)
	}
	mk := &ast.FuncLit{
		Type: &ast.FuncType{Params: &ast.FieldList{}, Results: &ast.FieldList{List: []*ast.Field{{Type: &ast.FuncType{Params: &ast.FieldList{}}}}}},
		Body: &ast.BlockStmt{List: []ast.Stmt{
			&ast.AssignStmt{Lhs: lhs, Tok: token.DEFINE, Rhs: rhs},
			&ast.ReturnStmt{Results: []ast.Expr{&ast.FuncLit{Type: &ast.FuncType{Params: &ast.FieldList{}},
				Body: &ast.BlockStmt{List: []ast.Stmt{&ast.ExprStmt{X: inner}}}}}},
		}},
	}
	return &ast.ExprStmt{X: vrtCall("Go", &ast.CallExpr{Fun: mk})}
}

func (in *inst) rangeStmt(s *ast.RangeStmt) ast.Stmt {
	s.X = in.expr(s.X)
	in.block(s.Body)
	txt := in.safeText(s.X)
	sorted := false
	for _, r := range in.opt.sortRange {
		if r == txt && txt != "" {
			sorted = true
		}
	}
	if !sorted {
		return s
	}
	in.usesVrt = true
	m := s.X
	// for k, v := range m  =>  for _, k := range vrt.SortedKeys(m) { v := m[k]; ... }
	key := s.Key
	if key == nil {
		in.tmp++
		key = ast.NewIdent(fmt.Sprintf("vrtKey%d", in.tmp))
	}
	if id, ok := key.(*ast.Ident); ok && id.Name == "_" {
		in.tmp++
		key = ast.NewIdent(fmt.Sprintf("vrtKey%d", in.tmp))
	}
	if s.Tok != token.DEFINE && s.Key != nil {
		in.errf(s, "sorted range needs := form")
		return s
	}
	body := s.Body
	if s.Value != nil {
		if id, ok := s.Value.(*ast.Ident); !ok || id.Name != "_" {
			as := &ast.AssignStmt{Lhs: []ast.Expr{s.Value}, Tok: token.DEFINE, Rhs: []ast.Expr{&ast.IndexExpr{X: m, Index: key}}}
			use := &ast.AssignStmt{Lhs: []ast.Expr{ast.NewIdent("_")}, Tok: token.ASSIGN, Rhs: []ast.Expr{s.Value}}
			body = &ast.BlockStmt{List: append([]ast.Stmt{as, use}, body.List...)}
		}
	}
	return &ast.RangeStmt{Key: ast.NewIdent("_"), Value: key, Tok: token.DEFINE, X: vrtCall("SortedKeys", m), Body: body}
}

func (in *inst) selectStmt(s *ast.SelectStmt) ast.Stmt {
	in.usesVrt = true
	in.tmp++
	base := fmt.Sprintf("vrtSel%d_", in.tmp)
	var lhs, rhs []ast.Expr
	var clauses []ast.Stmt
	hasDefault := false
	idx := 0
	for _, c := range s.Body.List {
		cc := c.(*ast.CommClause)
		if cc.Comm == nil {
			hasDefault = true
			clauses = append(clauses, &ast.CaseClause{List: nil, Body: in.stmts(cc.Body)})
			continue
		}
		name := fmt.Sprintf("%s%d", base, idx)
		var pre []ast.Stmt
		switch cm := cc.Comm.(type) {
		case *ast.SendStmt:
			lhs = append(lhs, ast.NewIdent(name))
			rhs = append(rhs, vrtCall("SendCase", in.expr(cm.Chan), in.expr(cm.Value)))
		case *ast.ExprStmt:
			u, ok := cm.X.(*ast.UnaryExpr)
			if !ok || u.Op != token.ARROW {
				in.errf(cm, "select case is not a receive")
				continue
			}
			lhs = append(lhs, ast.NewIdent(name))
			rhs = append(rhs, vrtCall("RecvCase", in.expr(u.X)))
		case *ast.AssignStmt:
			u, ok := cm.Rhs[0].(*ast.UnaryExpr)
			if !ok || u.Op != token.ARROW || len(cm.Rhs) != 1 {
				in.errf(cm, "select case is not a receive")
				continue
			}
			lhs = append(lhs, ast.NewIdent(name))
			rhs = append(rhs, vrtCall("RecvCase", in.expr(u.X)))
			meth := "Val"
			if len(cm.Lhs) == 2 {
				meth = "Val2"
			}
			as := &ast.AssignStmt{Lhs: cm.Lhs, Tok: cm.Tok, Rhs: []ast.Expr{&ast.CallExpr{Fun: &ast.SelectorExpr{X: ast.NewIdent(name), Sel: ast.NewIdent(meth)}}}}
			pre = append(pre, as)
			if cm.Tok == token.DEFINE {
				for _, l := range cm.Lhs {
					if id, ok := l.(*ast.Ident); ok && id.Name != "_" {
						pre = append(pre, &ast.AssignStmt{Lhs: []ast.Expr{ast.NewIdent("_")}, Tok: token.ASSIGN, Rhs: []ast.Expr{ast.NewIdent(id.Name)}})
					}
				}
			}
		default:
			in.errf(cc, "unhandled select comm %T", cc.Comm)
			continue
		}
		body := append(pre, in.stmts(cc.Body)...)
		clauses = append(clauses, &ast.CaseClause{List: []ast.Expr{&ast.BasicLit{Kind: token.INT, Value: strconv.Itoa(idx)}}, Body: body})
		idx++
	}
	def := "false"
	if hasDefault {
		def = "true"
	} else {
		// keeps the switch a terminating statement where the select was one
		clauses = append(clauses, &ast.CaseClause{List: nil, Body: []ast.Stmt{&ast.ExprStmt{X: &ast.CallExpr{Fun: ast.NewIdent("panic"), Args: []ast.Expr{strLit("vrt: select returned an impossible index")}}}}})
	}
	args := []ast.Expr{ast.NewIdent(def)}
	for _, l := range lhs {
		args = append(args, ast.NewIdent(l.(*ast.Ident).Name))
	}
	sw := &ast.SwitchStmt{Tag: vrtCall("Select", args...), Body: &ast.BlockStmt{List: clauses}}
	if len(lhs) > 0 {
		sw.Init = &ast.AssignStmt{Lhs: lhs, Tok: token.DEFINE, Rhs: rhs}
	}
	return sw
}
