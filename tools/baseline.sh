#!/bin/bash
# Runs the repository's test suite (guard off, no overlay) with -json and compares the passing set with BASELINE.json stable_pass.
# usage: tools/baseline.sh [out.json]
out=${1:-/tmp/baseline_run.json}
export GOFLAGS=-mod=mod GOPROXY=off; unset GOTOOLCHAIN GOSUMDB
: > $out
for m in . estargz cmd ipfs; do (cd /repo/$m && go test -json -vet=off -count=1 -timeout 40m ./... >> $out 2>/dev/null); done
python3 - "$out" <<'PY'
import json,sys
base=set(json.load(open('/root/.vp/BASELINE.json'))['stable_pass'])
passed=set()
for l in open(sys.argv[1]):
    try: e=json.loads(l)
    except Exception: continue
    if e.get('Action')=='pass' and e.get('Test'):
        passed.add(e['Package']+'::'+e['Test'])
missing=sorted(base-passed)
print('baseline stable_pass:',len(base),'passed now:',len(passed&base),'missing:',len(missing))
for m in missing[:40]: print('  MISSING',m)
PY
