#!/usr/bin/env python3
"""confirm_seed.py <adv_dir/mN> <worktree>: re-confirm an adversary change independently:
 with the patch: builds, listed tests pass, demo FAILS; without: demo PASSES. Leaves the worktree clean."""
import json,subprocess,sys,os,re,shlex
d,wt=sys.argv[1],sys.argv[2]
meta=json.load(open(os.path.join(d,'meta.json')))
env=dict(os.environ,GOFLAGS='-mod=mod',GOPROXY='off'); env.pop('GOTOOLCHAIN',None); env.pop('GOSUMDB',None)
def sh(cmd,timeout=1500):
    p=subprocess.run(cmd,shell=True,cwd=wt,env=env,capture_output=True,text=True,timeout=timeout)
    return p.returncode,(p.stdout+p.stderr)[-1500:]
def clean(): sh('git checkout -- . && git clean -fdq')
clean()
demo=meta['demo']
if len(sys.argv)>3: demo=sys.argv[3]
# normalise the demo command
m=re.match(r'^\s*(cp \S+ \S+ && go test .*?-count=1(?: -v)?)', demo)
demo=m.group(1) if m else demo.split('   (')[0].split('  (')[0]
demo=demo.replace('<repo>',wt).replace('<worktree>',wt)
res={}
rc,out=sh('git apply '+shlex.quote(os.path.join(d,'patch.diff')))
res['patch_applies']=rc==0
rc,out=sh('go build ./... ')
res['builds']=rc==0
tests=[t.split(' (')[0] for t in meta.get('tests_run',[]) if t.startswith('go test')]
ok=True
for t in tests:
    rc,out=sh('timeout 1200 '+t)
    if rc!=0: ok=False; res['test_output']=out
res['tests_pass_with_change']=ok
rc,out=sh('timeout 900 bash -c '+shlex.quote(demo))
res['demo_fails_with_change']=rc!=0
res['demo_out_with']=out[-400:]
sh('git checkout -- .')   # drop the patch but keep the copied demo
rc,out=sh('timeout 900 bash -c '+shlex.quote(demo))
res['demo_passes_without_change']=rc==0
if rc!=0: res['demo_out_without']=out[-600:]
clean()
res['confirmed']=all(res[k] for k in ['patch_applies','builds','tests_pass_with_change','demo_fails_with_change','demo_passes_without_change'])
print(json.dumps(res,indent=1))
