#!/bin/bash
# usage: tools/eval_seeds.sh <Cxx> <adv_dir> <worktree> [only-part]  — confirm each m*/ and evaluate the check against it; log to build/seeds.log
id=$1; adv=$2; wt=$3; only=${4:-}
cd /verif
for d in $adv/m*/; do
  m=$(basename $d)
  echo "=== $id $m $(date +%H:%M)" >> build/seeds.log
  python3 tools/confirm_seed.py $d $wt | grep -E '"confirmed"|false' >> build/seeds.log
  if [ -n "$only" ]; then extra="--only $only"; else extra=""; fi
  VERIF_PATCH=$d/patch.diff timeout 2400 ./run $id quick $extra 2>&1 | grep -E "^VIOLATION|^  key=|tier=|BROKEN" | head -8 >> build/seeds.log
  rm -rf build/$(echo $id | tr A-Z a-z)-p*
done
echo "=== done $id" >> build/seeds.log
