#!/usr/bin/env python3
"""keep_seed.py <adv_dir/mN> <seed-id> <detected:yes|no> <keys/notes...>: store a confirmed seeded change under /verif/seeded/<seed-id>/"""
import json,sys,os,shutil,glob
src,sid,det=sys.argv[1],sys.argv[2],sys.argv[3]
notes=' '.join(sys.argv[4:])
dst=os.path.join('/verif/seeded',sid)
os.makedirs(dst,exist_ok=True)
for f in glob.glob(os.path.join(src,'*')):
    if os.path.isfile(f): shutil.copy(f,dst)
    elif os.path.isdir(f): shutil.copytree(f,os.path.join(dst,os.path.basename(f)),dirs_exist_ok=True)
m=json.load(open(os.path.join(dst,'meta.json')))
m['breaks_property']=m.get('property')
m['confirmed_by_lead']={'script':'tools/confirm_seed.py (patch applies, builds, listed tests pass with the change, demo fails with it and passes without, in a scratch worktree)','confirmed':True}
m['check_result']={'command':'VERIF_PATCH=seeded/%s/patch.diff ./run %s quick'%(sid,m.get('property')),'detected':det=='yes','violation_keys_or_notes':notes}
json.dump(m,open(os.path.join(dst,'meta.json'),'w'),indent=1)
print('kept',dst)
