#!/usr/bin/env python3
"""Regenerates /verif/MANIFEST.json from the table below (kept in one place so
the manifest is always valid and in step with the checks that exist)."""
import json, os

TITLES = {}
for l in open('/verif/properties.jsonl'):
    p = json.loads(l); TITLES[p['id']] = p['title']

# id -> dict(level, technique, text, note, design)
CHECKS = {
 'C10': dict(level='model_checking', design='3/C10',
   technique='stateless exhaustive schedule exploration (all interleavings, happens-before state caching) of the real TTLCache/LRUCache under a cooperative scheduler + exhaustive op-history enumeration against a reference model',
   text='Every schedule (unbounded preemptions, TTL timer firing as an explorer action) of every 2-3 thread program combination over the cache alphabet, and every sequential history up to depth 6/7 against a reference refcount model; ghost state checks exactly-once finalisation, never-while-held, never-handed-out-after-finalise.',
   note='sequential consistency at sync operations; code between sync operations is data-race free (all cacheutil state is under the cache mutex); groupcache/lru uninstrumented; lock-dominance reduction (no switch while holding a lock, lock-order cycles reported as broken check)'),
 'C06': dict(level='model_checking', design='3/C06',
   technique='explicit enumeration of read/cache histories x server-reply deviations on the real remote.Blob over an in-memory registry; stateless schedule exploration (preemption/deviation bounded, HB-state caching) of concurrent readers; exhaustive regionSet.add sequences vs a bitmap',
   text='Every (size, chunk, prefetch-chunk, cache) config x every ReadAt(off,len)/Cache/Check/Refresh history of depth<=2 x every assignment of a non-default server personality to <=1 (quick) / <=2 (thorough) requests; 2-3 concurrent readers/prefetchers/refreshers with cache-loss and server deviations under all schedules within the bound; oracle: returned bytes equal the blob or error, FetchedSize equals the union of committed chunks, never exceeds size, never decreases.',
   note='lib/memreg replaces the network; sequential consistency at instrumented operations; watched unsynchronised fields httpFetcher.header/url; map iteration sorted'),
 'C13': dict(level='model_checking', design='3/C13',
   technique='stateless schedule exploration (preemption- and deviation-bounded DFS with happens-before state caching) of the real BackgroundTaskManager under a cooperative scheduler with virtual time',
   text='All schedules within the bound of 2-4 driver threads (prioritized Do/Done pairs, concurrent InvokeBackgroundTask callers) with harness bodies that notice cancellation 0-2 steps late; oracle on ghost state: no start while a prioritized task is in progress/in its silence period, cancellation reaches running bodies, concurrency bound, no self-overlap, nothing running after the invocation returns, every invocation completes.',
   note='sequential consistency at instrumented operations; decision..spawn atomic (no sync op in between); x/sync/semaphore instrumented copy; silence period and context timeout on the virtual clock'),
 'C17': dict(level='model_checking', design='3/C17',
   technique='explicit-state BFS over RPC histories (Init/Mount/Check/Unmount/Close/restart) of the real fusemanager.Server with injected backend failures and crash-restarts at every statement-level crash hook, canonical-state deduplication, per-state invariant vs a ghost model',
   text='Every history up to depth 5 (quick) / 6 (thorough) with <=1 / <=2 failure deviations and crash-restarts; after every op: store record vs served mountpoints, routing of Check/Unmount to the mounting instance, no double mount, restore after restart with recorded labels, unknown unmount succeeds, RPCs before initialisation fail.',
   note='service.NewFileSystem and mountinfo.GetMounts replaced by recording fakes through instrumentation seams; bbolt commit atomic; process crash model (no power loss)'),
 'C03': dict(level='exploration', design='3/C03',
   technique='bounded-exhaustive enumeration of input tars x builder configurations on the real builder, checked by an independent from-the-spec reader',
   text='All tars of <=2 entries over a 13-symbol alphabet and <=3 over a 7-symbol core x {Build, Writer.AppendTar, AppendTar twice, AppendTarLossLess} x chunk sizes x min-chunk sizes x {gzip, zstd:chunked, external TOC} x prioritized x input compression x workers 1..4; oracle: gunzip|tar of the output equals the input (last duplicate wins) + landmark/TOC additions, from-the-spec reading (footer->TOC->offset/innerOffset/size/digest) reproduces every file, TOCDigest/DiffID/UncompressedSize recomputed, lossless byte equality.',
   note='archive/tar, compress/flate, klauspost zstd as references; lib/enumx/blob.go does not import estargz'),
 'C05': dict(level='exploration', design='3/C05',
   technique='bounded-exhaustive differential enumeration (memory vs db metadata store) over builder outputs and hand-assembled spec-conforming TOCs; explicit-state histories for multi-layer isolation in one bolt DB',
   text='Every tar of <=3/4 entries x builder option sets x {gzip, zstd:chunked} plus 404 hand-made spec-conforming TOCs in 17 families; both stores compared on accept/reject, TOC digest, tree, attrs, xattrs, link counts, chunk table for every offset, ReadAt grid, pre-reader call sequences, Clone; all open/walk/close histories of <=3 layers in one DB up to depth 4/6.',
   note='differential oracle only (no hand-written expectations); NumLink 0 and 1 equated (node.go maps 0 to 1); unknown entry types / hardlinks without target treated as non-conforming (accept/reject only)'),
 'C08': dict(level='model_checking', design='3/C08',
   technique='explicit-state BFS over snapshotter call histories with backend failure deviations on the real snapshotter (real bolt metastore and directories, recording fake FileSystem), canonical-state deduplication, per-transition invariants',
   text='Every history up to depth 4 (quick) / 5 (thorough) over Prepare(with/without target)/View/Commit/Mounts/Remove/Cleanup/Walk/Update/Close x keys/targets/parents x <=1/<=2 failing backend calls x sync/async removal; invariants (a)-(e) of the statement after every transition; Walk/Stat compared with an independent metadata reader.',
   note='lib/recfs replaces the FUSE backend; sequential callers only (the concurrent-callers part of the design is not built)'),
 'C09': dict(level='fault_enumeration', design='3/C09',
   technique='exhaustive crash-image enumeration: crash hook before every statement of snapshot.go (generated by instrumentation) and entry-by-entry RemoveAll, distinct disk images restarted under every restore configuration and mount-failure assignment',
   text='For every history of depth <=2/3 followed by one armed operation: every distinct crash image x {restore, no-restore} x allow_invalid x all ok/fail assignments to restore mounts; oracle: start succeeds or fails exactly as allow_invalid prescribes, mount table = committed remote snapshots with stored labels, acknowledged snapshots present and usable, one Cleanup leaves exactly the live directories.',
   note='process-crash model (no power loss, bbolt commit atomic); FUSE mounts of the dead process are gone'),
 'C11': dict(level='model_checking', design='3/C11',
   technique='stateless schedule exploration (preemption-bounded DFS, happens-before state caching) of the real directory/memory chunk cache under a cooperative scheduler; file-system namespace operations are scheduling points',
   text='2-3 threads (writers with commit/abort/leave-open/zero-length/direct/split writes, readers incl. direct) x pre-population x cache configurations with data LRU = fd LRU = 1 over 3 keys on real tmpfs files; self-describing values; a hit must return exactly a value whose Commit was invoked, never a prefix/other key/uncommitted bytes, and must not change or fail while held.',
   note='sequential consistency at instrumented sync and os namespace operations; groupcache/lru uninstrumented'),
 'C12': dict(level='model_checking', design='3/C12',
   technique='explicit-state BFS (canonical-state dedup) over Resolve/Done/Close/expiry/registry-down/Check/Refresh/read histories of the real layer.Resolver over an in-memory registry with terminal probes; stateless schedule exploration of concurrent holders',
   text='All histories of depth 3 (quick) / 5 (thorough) over 2 layers x 2 holders with a failing k-th request as deviation; reference model of cache membership; after every op an instance is closed iff uncached and unheld; every state followed by: holders read correctly, release all, TTL passes, everything closed, cache directories and descriptors gone, re-resolve works.',
   note='lib/memreg replaces the network; reads through the layer reader not FUSE nodes; virtual time; CheckAlways=true'),
 'C14': dict(level='exploration', design='3/C14',
   technique='bounded-exhaustive enumeration of (tar, prioritized list, options) on the real builder against a reference implementation of the layout contract and a from-the-spec blob reader',
   text='All tars of <=3 entries x prioritized lists of length <=2 (4 entries x <=1) over existing paths in four spellings, directory, root, hardlink, empty file, missing path x allow-not-found x chunk/min-chunk/worker settings; leading group order, single landmark at a stream boundary, chunk offsets before/after the landmark, multiset of entries, not-found handling.',
   note='reference layout model lib/enumx.Layout; archive/tar and compress/flate as references'),
 'C15': dict(level='model_checking', design='3/C15',
   technique='exhaustive configuration x fault-position enumeration on the real layer stack over an in-memory registry (request log as observation) + stateless schedule exploration of concurrent Prefetch/Wait/BackgroundFetch with failures and stalls under virtual time',
   text='5 built layers x prefetch size x async threshold x prefetch/registry chunk sizes x failure of the k-th request for every k: prioritized reads after prefetch cause zero requests, no-prefetch landmark causes none, configured size fetched without landmarks, offline reads after background fetch; waiting returns in every schedule (end, failure, async, stall + timeout).',
   note='lib/memreg replaces the network; a stalled request never answers; virtual prefetch timeout'),
 'C18': dict(level='model_checking', design='3/C18',
   technique='explicit-state search of CRI keychain histories against a reference map with checked state merging; exhaustive registry-personality x request-path histories with a complete request-log oracle; stateless schedule exploration of fetch vs URL refresh',
   text='Keychain: all 4913 reference states x every operation, all histories to depth 4/5, all (host, reference) queries after every step. HTTP: every personality (redirects, expiring CDN URL, 401 token flow, mirror) x every history of depth 3/4 over read/check/refresh/cache; header and credential confinement checked on every logged request; concurrent fetch/check/refresh under the scheduler with url/header watched.',
   note='in-memory CRI backend and registry; docker authorizer real'),
 'C20': dict(level='exploration', design='3/C20',
   technique='bounded-exhaustive enumeration of manifests through containerd ChildrenHandler and both label handlers, then every label subset removed / corrupted, checked against the manifest',
   text='n=0..5 layers and label-limit boundary sizes x repeated digests x 11 URL menus x media types x both handlers x prefetch sizes; labels validated with containerd labels.Validate; reconstructed ref/digest/URLs/neighbour prefix/prefetch size compared with the manifest; every subset of emitted labels removed and each corrupted from a menu.',
   note='oracle compares with the manifest, not with the labels; service.sources and fs.neighboringLayers reached through in-package exports'),
 'C16': dict(level='model_checking', design='3/C16',
   technique='explicit-state BFS (canonical-state dedup, symmetry reduction) over lookup/use/release histories of the real store LayerManager and its FUSE handlers over an in-memory registry, with registry faults as deviations, against a reference use-count model',
   text='All histories up to depth 5 (FUSE handlers) / 4 (API) over 40 ops {lookup diff|blob|info, use, release} x 2 images x {real TOC digests, the other image\'s digest, bogus digest}, plus depth-3 histories with one failing registry request at every position; oracle: lookup succeeds iff the TOC digest belongs to a verified layer of the image (independent of history), counts never negative, layers with uses never released, bookkeeping dropped at zero and a later lookup resolves again.',
   note='lib/memreg serves manifests/configs/blobs; handlers driven through go-fuse\'s raw bridge without a mount; sequential histories only (lookups racing on one image are not explored)'),
 'C19': dict(level='model_checking', design='3/C19',
   technique='bounded-exhaustive enumeration of source layers x converters x options and of interrupt positions (retry) on a real content store with the oracle recomputed from the store; stateless schedule exploration (statement-level scheduling points, concurrent-map-access model) of parallel layer conversions by one converter instance',
   text='36 sources x 4 converters x option sets; every content-writer Write position interrupted then retried; 2-3 layers converted in parallel + finalize under all schedules with <=1 (quick) / <=2 (thorough) preemptions; descriptor digest/size, TOC digest annotation verified through the mount path (metadata reader + fs/reader VerifyTOC + file reads), uncompressed size/label, media type, lossless DiffID, TOC manifest mapping every converted layer.',
   note='estargz.Build and the content store run un-instrumented (private to one conversion); scheduling points before every statement of the three converter files; pigz/igzip disabled'),
 'C04': dict(level='exploration', design='3/C04',
   technique='bounded-exhaustive enumeration of hostile inputs (footers, TOC JSON structures, payload mutations, HTTP range replies, builder inputs) pushed through every public entry point in crash-isolated child processes',
   text='Every blob length 0..120, every single-byte mutation of each footer kind, all small TOCs over adversarial names/types/link targets/numeric fields wrapped in each container format, every single-byte mutation of a valid blob, a grammar of Content-Range/multipart replies, cyclic/truncated builder inputs; each through ParseFooter/ParseTOC/Open/VerifyTOC, both metadata stores with full walks, fs/reader prefetch/read/passthrough, remote blob reads, Build/Unpack; verdict per (input, stage): ok, error, panic, fatal, hang (3 of 3 fresh processes over 30 s CPU).',
   note='exhaustive over the stated small alphabets only (not all byte strings); stack overflow judged at 64 MiB stack; 4 GiB address-space limit; predicted-death inputs are executed until two same-key deaths were seen (reported as caps)'),
 'C01': dict(level='model_checking', design='3/C01',
   technique='bounded-exhaustive enumeration of single alterations of small blobs through the real digest chain; explicit-state histories of Verify/SkipVerify/read/Prefetch on one cached layer and of fs.Mount pairs; stateless schedule exploration of prefetch vs VerifyTOC vs on-demand reads',
   text='Every byte position x 4 transformations, every truncation, member swaps, validly recompressed replacement payloads and re-serialised TOC field changes of 7 (quick) / 38 (thorough) base blobs across gzip/zstd:chunked/external TOC, both metadata stores, memory and directory caches: VerifyTOC succeeds only if the parsed TOC hashes to D, no read returns altered bytes, no mismatching chunk remains cached; all histories of depth <=4/6 over Verify(D)/Verify(D\')/SkipVerify/read/Prefetch on one layer shared by two holders; the 2^3 mount decision table and ordered mount pairs; prefetch || VerifyTOC || read under all schedules within the bound.',
   note='sha256 collision-free; TOC extracted independently (archive/tar, gzip, zstd); fuse.NewServer replaced by a seam so Mount stops before the FUSE server; kernel page cache outside'),
 'C02': dict(level='exploration', design='3/C02',
   technique='bounded-exhaustive enumeration of tars x build/runtime configurations through the full stack (in-memory registry -> remote blob -> metadata store -> reader -> layer nodes -> go-fuse raw bridge) against an archive/tar reference tree; explicit-state BFS over access histories',
   text='1710 tars of <=3 members over a 13-member alphabet x 24 build x 12 runtime configurations, cold and warm full-view comparison (names, types, modes, sizes, owners, mtimes, rdev, nlink, inode sharing, xattrs, symlink targets, full contents, short reads past EOF); 360 (tar, config) cases with BFS to depth 3/4 over lookup/readdir/getattr/getxattr/readlink/read-grid/prefetch/cache-drop operations, full view compared after every operation.',
   note='lib/fusedrv drives the node layer through go-fuse\'s raw bridge without a kernel mount; lib/reftar reference (IMPL-RULE comments mark rules taken from the builder rather than the statement); C07 territory (state dir, whiteout/landmark translation) masked'),
 'C07': dict(level='exploration', design='3/C07',
   technique='bounded-exhaustive enumeration of layer stacks x opaque modes x metadata stores x every Lookup/Readdir call order on fresh roots, against an overlayfs reference (apply OCI layers vs merge served lower directories)',
   text='259 layers of <=3 members (+hard-link layers) under {memory, db} x {trusted, user, all}; full walk vs the translation reference; every LOOKUP/READDIR order up to length 3/4 per directory; 64,516 ordered layer pairs: MergeLower(served) == ApplyLayers(tars); listing/lookup agreement, inode uniqueness and stability, state file JSON.',
   note='go-fuse raw bridge instead of a kernel mount; real overlayfs replaced by the reference merge rules'),
}

NOT_YET = 'not claimed'

def main():
    checks = []
    for cid in sorted(CHECKS):
        c = CHECKS[cid]
        checks.append({
            'property_id': cid,
            'quick_cmd': f'./run {cid} quick',
            'thorough_cmd': f'./run {cid} thorough',
            'evidence_file': f'/verif/evidence/{cid}.json',
            'replay_cmd_template': f'./run {cid} quick --replay {{path}}',
            'engine': 'vrt+vexp' if c['level']=='model_checking' else 'enumx',
            'level_claimed': {'category': c['level'], 'text': c['text'], 'design_ref': c['design']},
            'level_note': c['note'],
            'technique': c['technique'],
        })
    na = [{'property_id': pid, 'reason': NOT_YET} for pid in sorted(TITLES) if pid not in CHECKS]
    m = {
      'version': 1,
      'setup_cmd': 'cd /verif && env -u GOTOOLCHAIN -u GOSUMDB GOFLAGS=-mod=mod GOPROXY=off go build -o build/bin/vinst ./cmd/vinst && ./tools/warm.sh',
      'hooks': {
        'guard': 'verif',
        'enable': 'no source commits: lib/vinst instruments /repo\'s current working tree at check time into /verif/build/<id>/src and every check is built with `go build -overlay build/<id>/overlay.json -tags verif` (sync/atomic/time/x-sync imports redirected to the vrt cooperative scheduler; go/chan/select/close rewritten; in-package harness files added by overlay)',
        'baseline_off_cmd': 'for m in . estargz cmd ipfs; do (cd /repo/$m && env -u GOTOOLCHAIN -u GOSUMDB GOFLAGS=-mod=mod GOPROXY=off go test -vet=off -count=1 -timeout 25m ./...) || exit 1; done',
        'source_commits': [],
        'add_only': True,
      },
      'engines': [
        {'name': 'vrt', 'path': 'vrt/', 'kind_free_text': 'cooperative scheduler runtime: sync/atomic/time/channel shims, virtual clock, happens-before fingerprints', 'serves_properties': sorted(c for c in CHECKS if CHECKS[c]['level']=='model_checking')},
        {'name': 'vinst', 'path': 'lib/vinst/', 'kind_free_text': 'go/ast source instrumenter producing a go build overlay', 'serves_properties': sorted(CHECKS)},
        {'name': 'vexp', 'path': 'lib/vexp/', 'kind_free_text': 'stateless DFS explorer with preemption/deviation bounds, HB-state caching, replay determinism checks', 'serves_properties': sorted(c for c in CHECKS if CHECKS[c]['level']=='model_checking')},
        {'name': 'runner', 'path': 'lib/runner/', 'kind_free_text': 'worker-process sharding, evidence writer, known-findings matching', 'serves_properties': sorted(CHECKS)},
      ],
      'checks': checks,
      'not_applicable': na,
      'notes': 'All checks rebuild from /repo working tree via ./run <id> <tier>. known_findings.jsonl lists genuine defects recorded rather than repaired.',
    }
    json.dump(m, open('/verif/MANIFEST.json','w'), indent=1)
    print('checks:', len(checks), 'not_applicable:', len(na))

main()
