#!/usr/bin/env python3
"""Regenerates /verif/MANIFEST.json from the table below (kept in one place so
the manifest is always valid and in step with the checks that exist)."""
import json, os

TITLES = {}
for l in open('/verif/properties.jsonl'):
    p = json.loads(l); TITLES[p['id']] = p['title']

# id -> dict(level, technique, text, note, design)
CHECKS = {
 'C10': dict(level='model_checking', design='3/C10',
   technique='stateless exhaustive schedule exploration (all interleavings, happens-before state caching) of the real TTLCache/LRUCache under a cooperative scheduler + exhaustive op-history enumeration against a reference model',
   text='Every schedule (unbounded preemptions, TTL timer firing as an explorer action) of every 2-3 thread program combination over the cache alphabet, and every sequential history up to depth 6/7 against a reference refcount model; ghost state checks exactly-once finalisation, never-while-held, never-handed-out-after-finalise.',
   note='sequential consistency at sync operations; code between sync operations is data-race free (all cacheutil state is under the cache mutex); groupcache/lru uninstrumented; lock-dominance reduction (no switch while holding a lock, lock-order cycles reported as broken check)'),
 'C06': dict(level='model_checking', design='3/C06',
   technique='explicit enumeration of read/cache histories x server-reply deviations on the real remote.Blob over an in-memory registry; stateless schedule exploration (preemption/deviation bounded, HB-state caching) of concurrent readers; exhaustive regionSet.add sequences vs a bitmap',
   text='Every (size, chunk, prefetch-chunk, cache) config x every ReadAt(off,len)/Cache/Check/Refresh history of depth<=2 x every assignment of a non-default server personality to <=1 (quick) / <=2 (thorough) requests; 2-3 concurrent readers/prefetchers/refreshers with cache-loss and server deviations under all schedules within the bound; oracle: returned bytes equal the blob or error, FetchedSize equals the union of committed chunks, never exceeds size, never decreases.',
   note='lib/memreg replaces the network; sequential consistency at instrumented operations; watched unsynchronised fields httpFetcher.header/url; map iteration sorted'),
 'C13': dict(level='model_checking', design='3/C13',
   technique='stateless schedule exploration (preemption- and deviation-bounded DFS with happens-before state caching) of the real BackgroundTaskManager under a cooperative scheduler with virtual time',
   text='All schedules within the bound of 2-4 driver threads (prioritized Do/Done pairs, concurrent InvokeBackgroundTask callers) with harness bodies that notice cancellation 0-2 steps late; oracle on ghost state: no start while a prioritized task is in progress/in its silence period, cancellation reaches running bodies, concurrency bound, no self-overlap, nothing running after the invocation returns, every invocation completes.',
   note='sequential consistency at instrumented operations; decision..spawn atomic (no sync op in between); x/sync/semaphore instrumented copy; silence period and context timeout on the virtual clock'),
 'C17': dict(level='model_checking', design='3/C17',
   technique='explicit-state BFS over RPC histories (Init/Mount/Check/Unmount/Close/restart) of the real fusemanager.Server with injected backend failures and crash-restarts at every statement-level crash hook, canonical-state deduplication, per-state invariant vs a ghost model',
   text='Every history up to depth 5 (quick) / 6 (thorough) with <=1 / <=2 failure deviations and crash-restarts; after every op: store record vs served mountpoints, routing of Check/Unmount to the mounting instance, no double mount, restore after restart with recorded labels, unknown unmount succeeds, RPCs before initialisation fail.',
   note='service.NewFileSystem and mountinfo.GetMounts replaced by recording fakes through instrumentation seams; bbolt commit atomic; process crash model (no power loss)'),
}

NOT_YET = 'check not built yet in this session (work in progress; see DESIGN.md section 3)'

def main():
    checks = []
    for cid in sorted(CHECKS):
        c = CHECKS[cid]
        checks.append({
            'property_id': cid,
            'quick_cmd': f'./run {cid} quick',
            'thorough_cmd': f'./run {cid} thorough',
            'evidence_file': f'/verif/evidence/{cid}.json',
            'replay_cmd_template': f'./run {cid} quick --replay {{path}}',
            'engine': 'vrt+vexp' if c['level']=='model_checking' else 'enumx',
            'level_claimed': {'category': c['level'], 'text': c['text'], 'design_ref': c['design']},
            'level_note': c['note'],
            'technique': c['technique'],
        })
    na = [{'property_id': pid, 'reason': NOT_YET} for pid in sorted(TITLES) if pid not in CHECKS]
    m = {
      'version': 1,
      'setup_cmd': 'cd /verif && env -u GOTOOLCHAIN -u GOSUMDB GOFLAGS=-mod=mod GOPROXY=off go build -o build/bin/vinst ./cmd/vinst && ./tools/warm.sh',
      'hooks': {
        'guard': 'verif',
        'enable': 'no source commits: lib/vinst instruments /repo\'s current working tree at check time into /verif/build/<id>/src and every check is built with `go build -overlay build/<id>/overlay.json -tags verif` (sync/atomic/time/x-sync imports redirected to the vrt cooperative scheduler; go/chan/select/close rewritten; in-package harness files added by overlay)',
        'baseline_off_cmd': 'for m in . estargz cmd ipfs; do (cd /repo/$m && env -u GOTOOLCHAIN -u GOSUMDB GOFLAGS=-mod=mod GOPROXY=off go test -vet=off -count=1 -timeout 25m ./...) || exit 1; done',
        'source_commits': [],
        'add_only': True,
      },
      'engines': [
        {'name': 'vrt', 'path': 'vrt/', 'kind_free_text': 'cooperative scheduler runtime: sync/atomic/time/channel shims, virtual clock, happens-before fingerprints', 'serves_properties': sorted(c for c in CHECKS if CHECKS[c]['level']=='model_checking')},
        {'name': 'vinst', 'path': 'lib/vinst/', 'kind_free_text': 'go/ast source instrumenter producing a go build overlay', 'serves_properties': sorted(CHECKS)},
        {'name': 'vexp', 'path': 'lib/vexp/', 'kind_free_text': 'stateless DFS explorer with preemption/deviation bounds, HB-state caching, replay determinism checks', 'serves_properties': sorted(c for c in CHECKS if CHECKS[c]['level']=='model_checking')},
        {'name': 'runner', 'path': 'lib/runner/', 'kind_free_text': 'worker-process sharding, evidence writer, known-findings matching', 'serves_properties': sorted(CHECKS)},
      ],
      'checks': checks,
      'not_applicable': na,
      'notes': 'All checks rebuild from /repo working tree via ./run <id> <tier>. known_findings.jsonl lists genuine defects recorded rather than repaired.',
    }
    json.dump(m, open('/verif/MANIFEST.json','w'), indent=1)
    print('checks:', len(checks), 'not_applicable:', len(na))

main()
