#!/bin/bash
# usage: tools/mut.sh <Cxx> <repo-relative-file> <sed-expr> [tier] — evaluate a check against a one-file sed mutation (via VERIF_PATCH; /repo untouched)
id=$1; f=$2; expr=$3; tier=${4:-quick}
tmp=$(mktemp -d /tmp/mut.XXXXXX)
mkdir -p $tmp/a/$(dirname $f) $tmp/b/$(dirname $f)
cp /repo/$f $tmp/a/$f; cp /repo/$f $tmp/b/$f
sed -i "$expr" $tmp/b/$f
(cd $tmp && diff -u a/$f b/$f > m.diff)
if [ ! -s $tmp/m.diff ]; then echo "mutation did not change anything"; rm -rf $tmp; exit 3; fi
grep '^[-+]' $tmp/m.diff | grep -v '^\(---\|+++\)'
cd /verif && VERIF_PATCH=$tmp/m.diff ./run $id $tier 2>&1 | grep -E "^VIOLATION|^  key=|tier=|BROKEN|KNOWN" | head -12
rm -rf $tmp /verif/build/$(echo $id | tr A-Z a-z)-p*
