#!/bin/bash
# usage: tools/racepass.sh <Cxx> [N] — side condition of the cooperative scheduler: runs the concurrent harness bodies
# of a check free-running under Go's race detector and summarises the races that involve repository code.
set -u
cd /verif
export GOFLAGS=-mod=mod GOPROXY=off; unset GOTOOLCHAIN GOSUMDB
id=$1; n=${2:-10}
lc=$(echo "$id" | tr 'A-Z' 'a-z'); dir=checks/$lc; out=build/$lc-race
mkdir -p "$out" racepass
python3 - "$dir/inst.json" "/verif/$out" '{}' > "$out/inst.json" <<'PY'
import json,sys
cfg=json.loads(open(sys.argv[1]).read().replace('@OUT@', sys.argv[2])); cfg['override']={}
print(json.dumps(cfg))
PY
build/bin/vinst "$out/inst.json" || exit 2
go build -race -overlay "$out/overlay.json" -tags verif -o "$out/check" "./$dir" || exit 2
rm -f "$out"/race.*
GORACE="log_path=/verif/$out/race halt_on_error=0 history_size=2" timeout 900 "$out/check" --racepass "$n" 2>&1 | tail -3
python3 - "$id" "$out" <<'PY'
import sys,glob,re,json
id,out=sys.argv[1],sys.argv[2]
text=''.join(open(f,errors='replace').read() for f in glob.glob(out+'/race.*'))
reports=[r for r in text.split('==================') if 'DATA RACE' in r]
def frames(block):
    return re.findall(r'\n  ([^\s(]+)\(.*?\)\n\s+(\S+?):(\d+)', block)
uniq={}
for r in reports:
    parts=re.split(r'\n(?=Previous |Goroutine )', r)
    acc=[p for p in parts if p.lstrip().startswith(('Write at','Read at','Previous write','Previous read','WARNING'))]
    tops=[]
    for p in re.split(r'\n\n', r):
        if re.match(r'\s*(WARNING: DATA RACE\n)?(Write|Read|Previous write|Previous read) at', p):
            fr=[f for f in frames('\n'+p) if 'stargz-snapshotter' in f[0] and '/vrt' not in f[0]]
            allfr=frames('\n'+p)
            tops.append((fr[0] if fr else None, allfr[0] if allfr else None))
    if len(tops)<2: continue
    # keep only races where both accesses' innermost frame is repository code (not harness / vrt / stdlib-only)
    if not all(t[0] and t[1] and t[0]==t[1] for t in tops[:2]): continue
    key=' <-> '.join(sorted('%s (%s:%s)'%(t[0][0].split('/')[-1], t[0][1].split('/repo/')[-1].split('/src/')[-1], t[0][2]) for t in tops[:2]))
    uniq[key]=uniq.get(key,0)+1
res={'property':id,'race_reports_total':len(reports),'races_in_repository_code':[{'accesses':k,'reports':v} for k,v in sorted(uniq.items())]}
json.dump(res,open('/verif/racepass/%s.json'%id,'w'),indent=1)
print(json.dumps(res,indent=1)[:3000])
PY
rm -rf "$out"
