#!/bin/bash
# usage: tools/runall.sh <tier> <ids...> — runs checks one after another, appends a summary line per check to build/runall.log
tier=$1; shift
cd /verif; mkdir -p build
for id in "$@"; do
  s=$(date +%s)
  out=$(timeout ${RUNALL_TIMEOUT:-2400} ./run $id $tier 2>&1 | grep -E "^VIOLATION|^  key=|tier=|BROKEN|KNOWN|cap:" | head -30)
  echo "=== $id $(( $(date +%s)-s ))s rc" >> build/runall.log
  echo "$out" >> build/runall.log
done
echo "=== DONE $*" >> build/runall.log
