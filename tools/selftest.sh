#!/bin/bash
# Re-runs every kept seeded change against the check named in its meta.json (VERIF_PATCH overlay; /repo untouched)
# and prints a detection matrix. usage: tools/selftest.sh [seed-id-prefix]
cd /verif
for d in seeded/${1:-}*/; do
  sid=$(basename $d)
  cmd=$(python3 -c "import json;print(json.load(open('$d/meta.json'))['check_result']['command'])")
  chk=$(echo "$cmd" | sed -n 's/.*\.\/run \(C[0-9]*\) .*/\1/p')
  out=$(VERIF_PATCH=/verif/$d/patch.diff timeout 3000 ./run $chk quick 2>&1 | grep -E "^  key=|BROKEN" | sort -u | head -5 | tr '\n' ' ')
  if echo "$out" | grep -q "key="; then echo "DETECTED $sid by $chk: $out"; else echo "MISSED   $sid by $chk: $out"; fi
  rm -rf build/$(echo $chk | tr A-Z a-z)-p*
done
