#!/bin/bash
# full thorough runs, sequentially; summary lines to build/thorough_full.log
cd /verif; mkdir -p build
for id in "$@"; do
  s=$(date +%s)
  timeout 5400 ./run $id thorough > build/thorough_$id.out 2>&1
  echo "=== $id thorough-full $(( $(date +%s)-s ))s" >> build/thorough_full.log
  grep -E "^VIOLATION|^  key=|tier=|BROKEN" build/thorough_$id.out | cut -c1-250 >> build/thorough_full.log
done
echo "=== DONE $*" >> build/thorough_full.log
