#!/bin/bash
# smoke-run every thorough tier with a reduced budget; log summary lines
cd /verif; mkdir -p build
for id in "$@"; do
  s=$(date +%s)
  out=$(VERIF_BUDGET_S=${SMOKE_BUDGET:-240} timeout 3000 ./run $id thorough 2>&1 | grep -E "^VIOLATION|^  key=|tier=|BROKEN|KNOWN" | head -12)
  echo "=== $id thorough $(( $(date +%s)-s ))s" >> build/thorough.log
  echo "$out" | cut -c1-250 >> build/thorough.log
done
echo "=== DONE" >> build/thorough.log
