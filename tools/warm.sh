#!/bin/bash
# Pre-builds every check once so the first quick run does not pay the cold compile.
cd /verif
export GOFLAGS=-mod=mod GOPROXY=off
unset GOTOOLCHAIN GOSUMDB
for d in checks/*/; do
  id=$(basename "$d")
  out=build/$id
  mkdir -p "$out"
  sed -e "s#@OUT@#/verif/$out#g" "$d/inst.json" > "$out/inst.json"
  build/bin/vinst "$out/inst.json" && go build -overlay "$out/overlay.json" -tags verif -o "$out/check" "./$d" || echo "warm: $id failed (will be reported by the check itself)"
done
exit 0
