package vrt

import (
	"unsafe"
)

// Channel operations of instrumented code are routed here. Real Go channels
// are kept (so un-instrumented code such as context can close them); blocking
// and the rendezvous of unbuffered channels are simulated so the scheduler
// sees who is blocked on what.

type chanState struct {
	ref    any // keeps the channel alive so its address is not reused within one execution
	closed bool
	sendq  []*waiter // parked senders (unbuffered only)
	recvq  []*waiter // parked receivers (unbuffered only)
}

type waiter struct {
	done  bool
	val   any
	ok    bool
	group *selGroup
	idx   int
}

type selGroup struct {
	fired int // -1 until a peer completed one of the cases
	ws    []*waiter
}

func chanKey[T any](ch chan T) uintptr { return *(*uintptr)(unsafe.Pointer(&ch)) }

func (s *Sched) cst(k uintptr, ref any) *chanState {
	st := s.chans[k]
	if st == nil {
		st = &chanState{ref: ref}
		s.chans[k] = st
	}
	return st
}

func removeWaiter(q []*waiter, w *waiter) []*waiter {
	for i, x := range q {
		if x == w {
			return append(q[:i:i], q[i+1:]...)
		}
	}
	return q
}

// firstLive returns the first waiter of q that can still be completed.
func firstLive(q []*waiter) *waiter {
	for _, w := range q {
		if w.done {
			continue
		}
		if w.group != nil && w.group.fired >= 0 {
			continue
		}
		return w
	}
	return nil
}

// ChanObj returns the scheduler's identity of a channel (for events on it).
func ChanObj[T any](ch <-chan T) any { return chanKey(bidirR(ch)) }

func chEv(kind string, k uintptr) { Event(kind, k, 0) }

func complete(w *waiter, v any, ok bool) {
	w.val, w.ok, w.done = v, ok, true
	if w.group != nil {
		w.group.fired = w.idx
	}
}

// Send implements `ch <- v`.
func Send[T any](ch chan<- T, v T) {
	s := active
	if s == nil || s.aborting {
		if s != nil {
			panic(abortSig{})
		}
		ch <- v
		return
	}
	Point("send", "")
	sendNoPoint(s, ch, v)
}

func bidir[T any](ch chan<- T) chan T  { return *(*chan T)(unsafe.Pointer(&ch)) }
func bidirR[T any](ch <-chan T) chan T { return *(*chan T)(unsafe.Pointer(&ch)) }

func sendNoPoint[T any](s *Sched, ch chan<- T, v T) {
	if ch == nil {
		Block("send on nil chan", func() bool { return false })
	}
	if cap(ch) > 0 {
		st := s.cst(chanKey(bidir(ch)), ch)
		for {
			if st.closed {
				panic("send on closed channel")
			}
			select {
			case ch <- v:
				chEv("sent", chanKey(bidir(ch)))
				return
			default:
			}
			Block("chan send (buffered)", func() bool { return len(ch) < cap(ch) || st.closed })
		}
	}
	st := s.cst(chanKey(bidir(ch)), ch)
	if st.closed {
		panic("send on closed channel")
	}
	if r := firstLive(st.recvq); r != nil {
		st.recvq = removeWaiter(st.recvq, r)
		complete(r, v, true)
		chEv("sent", chanKey(bidir(ch)))
		return
	}
	w := &waiter{val: v}
	st.sendq = append(st.sendq, w)
	chEv("send.park", chanKey(bidir(ch)))
	for !w.done {
		if st.closed {
			st.sendq = removeWaiter(st.sendq, w)
			panic("send on closed channel")
		}
		Block("chan send", func() bool { return w.done || st.closed })
	}
	chEv("send.done", chanKey(bidir(ch)))
}

// Recv implements `<-ch`.
func Recv[T any](ch <-chan T) T {
	v, _ := Recv2(ch)
	return v
}

// Recv2 implements `v, ok := <-ch`.
func Recv2[T any](ch <-chan T) (T, bool) {
	s := active
	if s == nil || s.aborting {
		if s != nil {
			panic(abortSig{})
		}
		v, ok := <-ch
		return v, ok
	}
	Point("recv", "")
	return recvNoPoint(s, ch)
}

// tryRecvNow performs the receive if it can complete immediately.
func tryRecvNow[T any](s *Sched, ch <-chan T, st *chanState) (v T, ok bool, did bool) {
	if cap(ch) == 0 {
		if w := firstLive(st.sendq); w != nil {
			st.sendq = removeWaiter(st.sendq, w)
			val := w.val.(T)
			complete(w, nil, true)
			return val, true, true
		}
	}
	// real non-blocking receive: buffered data, closed channel, or a value
	// from an un-instrumented sender.
	select {
	case v, ok = <-ch:
		return v, ok, true
	default:
	}
	return v, false, false
}

// recvReady is the non-destructive readiness test used while parked.
func recvReady[T any](ch <-chan T, st *chanState) bool {
	if st.closed || len(ch) > 0 {
		return true
	}
	if cap(ch) == 0 && firstLive(st.sendq) != nil {
		return true
	}
	return false
}

func recvNoPoint[T any](s *Sched, ch <-chan T) (T, bool) {
	var zero T
	if ch == nil {
		Block("recv on nil chan", func() bool { return false })
	}
	st := s.cst(chanKey(bidirR(ch)), ch)
	for {
		if v, ok, did := tryRecvNow(s, ch, st); did {
			chEv("recvd", chanKey(bidirR(ch)))
			return v, ok
		}
		if cap(ch) == 0 {
			w := &waiter{}
			st.recvq = append(st.recvq, w)
			chEv("recv.park", chanKey(bidirR(ch)))
			// foreign close (e.g. context cancellation) is detected by a real
			// non-blocking receive in the predicate; the outcome is stashed.
			Block("chan recv", func() bool {
				if w.done || st.closed {
					return true
				}
				select {
				case v, ok := <-ch:
					st.recvq = removeWaiter(st.recvq, w)
					complete(w, v, ok)
					return true
				default:
				}
				return false
			})
			st.recvq = removeWaiter(st.recvq, w)
			if w.done {
				chEv("recv.done", chanKey(bidirR(ch)))
				if w.val == nil {
					return zero, w.ok
				}
				return w.val.(T), w.ok
			}
			continue
		}
		Block("chan recv (buffered)", func() bool {
			if recvReady(ch, st) {
				return true
			}
			return false
		})
	}
}

// Close implements close(ch).
func Close[T any](ch chan<- T) {
	s := active
	if s == nil {
		close(ch)
		return
	}
	if s.aborting {
		defer func() { recover() }()
		close(ch)
		return
	}
	Point("close", "")
	close(ch)
	s.cst(chanKey(bidir(ch)), ch).closed = true
	chEv("closed", chanKey(bidir(ch)))
}

// ---- select ---------------------------------------------------------------

// Case is one communication clause of a rewritten select statement.
type Case interface {
	ready(s *Sched) bool   // can complete now (non-destructive where possible)
	perform(s *Sched) bool // try to complete now
	park(s *Sched, g *selGroup, idx int)
	unpark(s *Sched)
	finish() // copy a peer-completed result
	key() uintptr
}

func (c *RCase[T]) key() uintptr { return chanKey(bidirR(c.ch)) }
func (c *SCase[T]) key() uintptr { return chanKey(bidir(c.ch)) }

// RCase is a receive clause.
type RCase[T any] struct {
	ch  <-chan T
	val T
	ok  bool
	got bool
	w   *waiter
}

// RecvCase builds a receive clause.
func RecvCase[T any](ch <-chan T) *RCase[T] { return &RCase[T]{ch: ch} }

// Val returns the received value.
func (c *RCase[T]) Val() T { return c.val }

// Val2 returns the received value and the ok flag.
func (c *RCase[T]) Val2() (T, bool) { return c.val, c.ok }

func (c *RCase[T]) ready(s *Sched) bool {
	if c.got {
		return true
	}
	if c.ch == nil {
		return false
	}
	st := s.cst(chanKey(bidirR(c.ch)), c.ch)
	if recvReady(c.ch, st) {
		return true
	}
	if cap(c.ch) == 0 {
		// possible foreign close (context cancellation): probe with a real
		// non-blocking receive and stash the outcome.
		select {
		case v, ok := <-c.ch:
			c.val, c.ok, c.got = v, ok, true
			return true
		default:
		}
	}
	return false
}

func (c *RCase[T]) perform(s *Sched) bool {
	if c.got {
		return true
	}
	if c.ch == nil {
		return false
	}
	st := s.cst(chanKey(bidirR(c.ch)), c.ch)
	v, ok, did := tryRecvNow(s, c.ch, st)
	if did {
		c.val, c.ok, c.got = v, ok, true
	}
	return did
}

func (c *RCase[T]) park(s *Sched, g *selGroup, idx int) {
	if c.ch == nil {
		return
	}
	c.w = &waiter{group: g, idx: idx}
	g.ws = append(g.ws, c.w)
	if cap(c.ch) == 0 {
		st := s.cst(chanKey(bidirR(c.ch)), c.ch)
		st.recvq = append(st.recvq, c.w)
	}
}

func (c *RCase[T]) unpark(s *Sched) {
	if c.ch == nil || c.w == nil {
		return
	}
	if cap(c.ch) == 0 {
		st := s.cst(chanKey(bidirR(c.ch)), c.ch)
		st.recvq = removeWaiter(st.recvq, c.w)
	}
}

func (c *RCase[T]) finish() {
	if c.w != nil && c.w.done {
		if c.w.val != nil {
			c.val = c.w.val.(T)
		}
		c.ok = c.w.ok
		c.got = true
	}
}

// SCase is a send clause.
type SCase[T any] struct {
	ch chan<- T
	v  T
	w  *waiter
}

// SendCase builds a send clause.
func SendCase[T any](ch chan<- T, v T) *SCase[T] { return &SCase[T]{ch: ch, v: v} }

func (c *SCase[T]) ready(s *Sched) bool {
	if c.ch == nil {
		return false
	}
	st := s.cst(chanKey(bidir(c.ch)), c.ch)
	if st.closed {
		return true // will panic, as in Go
	}
	if cap(c.ch) > 0 {
		return len(c.ch) < cap(c.ch)
	}
	return firstLive(st.recvq) != nil
}

func (c *SCase[T]) perform(s *Sched) bool {
	if !c.ready(s) {
		return false
	}
	st := s.cst(chanKey(bidir(c.ch)), c.ch)
	if st.closed {
		panic("send on closed channel")
	}
	if cap(c.ch) > 0 {
		select {
		case c.ch <- c.v:
			return true
		default:
			return false
		}
	}
	r := firstLive(st.recvq)
	st.recvq = removeWaiter(st.recvq, r)
	complete(r, c.v, true)
	return true
}

func (c *SCase[T]) park(s *Sched, g *selGroup, idx int) {
	if c.ch == nil {
		return
	}
	c.w = &waiter{group: g, idx: idx, val: c.v}
	g.ws = append(g.ws, c.w)
	if cap(c.ch) == 0 {
		st := s.cst(chanKey(bidir(c.ch)), c.ch)
		st.sendq = append(st.sendq, c.w)
	}
}

func (c *SCase[T]) unpark(s *Sched) {
	if c.ch == nil || c.w == nil {
		return
	}
	if cap(c.ch) == 0 {
		st := s.cst(chanKey(bidir(c.ch)), c.ch)
		st.sendq = removeWaiter(st.sendq, c.w)
	}
}

func (c *SCase[T]) finish() {}

// Select implements a select statement: it returns the index of the clause
// that fired, or -1 for the default clause.
func Select(hasDefault bool, cases ...Case) int {
	s := active
	if s == nil || s.aborting {
		if s != nil {
			panic(abortSig{})
		}
		panic("vrt.Select without scheduler is not supported; run the code under vrt.Run")
	}
	Point("select", "")
	for {
		var rdy []int
		for i, c := range cases {
			if c.ready(s) {
				rdy = append(rdy, i)
			}
		}
		if len(rdy) > 0 {
			pick := 0
			if len(rdy) > 1 && s.quiet == 0 {
				names := make([]uint64, len(rdy))
				for k, ri := range rdy {
					names[k] = uint64(ri) + 1
				}
				pick = s.cfg.Chooser(ChoicePoint{Kind: 'S', N: len(rdy), Label: "select", FP: mix(s.fp, s.cur.cname), Opts: names})
				if pick < 0 || pick >= len(rdy) {
					Broken("chooser returned %d of %d (select)", pick, len(rdy))
				}
			}
			i := rdy[pick]
			if cases[i].perform(s) {
				cases[i].finish()
				chEv("sel.fire", cases[i].key())
				return i
			}
			Broken("select: ready case %d could not be performed", i)
		}
		if hasDefault {
			for _, c := range cases {
				chEv("sel.default", c.key())
			}
			return -1
		}
		g := &selGroup{fired: -1}
		for i, c := range cases {
			c.park(s, g, i)
			chEv("sel.park", c.key())
		}
		Block("select", func() bool {
			if g.fired >= 0 {
				return true
			}
			for _, c := range cases {
				if c.ready(s) {
					return true
				}
			}
			return false
		})
		for _, c := range cases {
			c.unpark(s)
		}
		if g.fired >= 0 {
			cases[g.fired].finish()
			chEv("sel.done", cases[g.fired].key())
			return g.fired
		}
		// otherwise a case became ready: loop and take it
	}
}
