package vrt

// Plain Go maps are not safe for concurrent use: the runtime marks a map as
// "being written" for the duration of an assignment/delete and every other
// access that observes the mark dies with an unrecoverable
//
//	fatal error: concurrent map writes
//	fatal error: concurrent map read and map write
//
// vinst inserts MapWrite(name) / MapRead(name) immediately before statements
// that write / read a map listed under "map_rw" in inst.json. They make the
// runtime's check schedulable: a write is modelled as a non-atomic operation
// that spans one scheduling point (the "write window"); any other thread that
// starts a write or a read of the same map inside the window fails the
// execution with the runtime's message.
//
// The window is closed again before MapWrite returns and the instrumented
// statement (the real map assignment) follows without another scheduling point,
// so two accesses are reported only when one really begins while the other is
// in progress -- accesses ordered by a lock never overlap a window, because the
// second thread cannot get past the lock while the first one is parked inside
// its window.

type mapMark struct {
	writer int // vrt thread id inside the write window
	active bool
}

func mapMarks() map[string]*mapMark {
	return Local("vrt.maprw", func() any { return map[string]*mapMark{} }).(map[string]*mapMark)
}

func clearOwnMarks(marks map[string]*mapMark, tid int) {
	for _, m := range marks {
		if m.active && m.writer == tid {
			m.active = false
		}
	}
}

// MapWrite is called before a statement that assigns to / deletes from the named map.
func MapWrite(name string) {
	if active == nil {
		return
	}
	if active.aborting {
		panic(abortSig{})
	}
	marks := mapMarks()
	tid := ThreadID()
	clearOwnMarks(marks, tid)
	Point("map.write", name)
	m := marks[name]
	if m == nil {
		m = &mapMark{}
		marks[name] = m
	}
	if m.active && m.writer != tid {
		Fail("fatal error: concurrent map writes on %s (t%d starts a write while t%d is inside one)", name, tid, m.writer)
	}
	m.writer, m.active = tid, true
	Point("map.write.window", name)
	// this thread was chosen again: its write completes now (the instrumented
	// assignment follows without a scheduling point)
	if m.writer == tid {
		m.active = false
	}
}

// MapRead is called before a statement that indexes / ranges over the named map.
func MapRead(name string) {
	if active == nil {
		return
	}
	if active.aborting {
		panic(abortSig{})
	}
	marks := mapMarks()
	tid := ThreadID()
	clearOwnMarks(marks, tid)
	Point("map.read", name)
	if m := marks[name]; m != nil && m.active && m.writer != tid {
		Fail("fatal error: concurrent map read and map write on %s (t%d reads while t%d is inside a write)", name, tid, m.writer)
	}
}

// MapQuiesce drops every write mark of the calling thread (harnesses call it
// when a thread ends; it is not a scheduling point).
func MapQuiesce() {
	if active == nil || active.aborting {
		return
	}
	clearOwnMarks(mapMarks(), ThreadID())
}
