// Package vatomic mirrors sync/atomic with a scheduling point before every
// operation.
package vatomic

import (
	"sync/atomic"

	"github.com/containerd/stargz-snapshotter/estargz/vrt"
)

func pt(k string, o any) {
	if vrt.Active() {
		vrt.Point(k, o)
	}
}

func AddInt32(p *int32, d int32) int32     { pt("atomic.add", p); return atomic.AddInt32(p, d) }
func AddInt64(p *int64, d int64) int64     { pt("atomic.add", p); return atomic.AddInt64(p, d) }
func AddUint32(p *uint32, d uint32) uint32 { pt("atomic.add", p); return atomic.AddUint32(p, d) }
func AddUint64(p *uint64, d uint64) uint64 { pt("atomic.add", p); return atomic.AddUint64(p, d) }
func LoadInt32(p *int32) int32             { pt("atomic.load", p); return atomic.LoadInt32(p) }
func LoadInt64(p *int64) int64             { pt("atomic.load", p); return atomic.LoadInt64(p) }
func LoadUint32(p *uint32) uint32          { pt("atomic.load", p); return atomic.LoadUint32(p) }
func LoadUint64(p *uint64) uint64          { pt("atomic.load", p); return atomic.LoadUint64(p) }
func StoreInt32(p *int32, v int32)         { pt("atomic.store", p); atomic.StoreInt32(p, v) }
func StoreInt64(p *int64, v int64)         { pt("atomic.store", p); atomic.StoreInt64(p, v) }
func StoreUint32(p *uint32, v uint32)      { pt("atomic.store", p); atomic.StoreUint32(p, v) }
func StoreUint64(p *uint64, v uint64)      { pt("atomic.store", p); atomic.StoreUint64(p, v) }
func SwapInt32(p *int32, v int32) int32    { pt("atomic.swap", p); return atomic.SwapInt32(p, v) }
func SwapInt64(p *int64, v int64) int64    { pt("atomic.swap", p); return atomic.SwapInt64(p, v) }
func CompareAndSwapInt32(p *int32, o, n int32) bool {
	pt("atomic.cas", p)
	return atomic.CompareAndSwapInt32(p, o, n)
}
func CompareAndSwapInt64(p *int64, o, n int64) bool {
	pt("atomic.cas", p)
	return atomic.CompareAndSwapInt64(p, o, n)
}
func CompareAndSwapUint32(p *uint32, o, n uint32) bool {
	pt("atomic.cas", p)
	return atomic.CompareAndSwapUint32(p, o, n)
}

type Bool struct{ v atomic.Bool }

func (b *Bool) Load() bool                    { pt("atomic.load", b); return b.v.Load() }
func (b *Bool) Store(x bool)                  { pt("atomic.store", b); b.v.Store(x) }
func (b *Bool) Swap(x bool) bool              { pt("atomic.swap", b); return b.v.Swap(x) }
func (b *Bool) CompareAndSwap(o, n bool) bool { pt("atomic.cas", b); return b.v.CompareAndSwap(o, n) }

type Int32 struct{ v atomic.Int32 }

func (b *Int32) Load() int32                    { pt("atomic.load", b); return b.v.Load() }
func (b *Int32) Store(x int32)                  { pt("atomic.store", b); b.v.Store(x) }
func (b *Int32) Add(x int32) int32              { pt("atomic.add", b); return b.v.Add(x) }
func (b *Int32) Swap(x int32) int32             { pt("atomic.swap", b); return b.v.Swap(x) }
func (b *Int32) CompareAndSwap(o, n int32) bool { pt("atomic.cas", b); return b.v.CompareAndSwap(o, n) }

type Int64 struct{ v atomic.Int64 }

func (b *Int64) Load() int64                    { pt("atomic.load", b); return b.v.Load() }
func (b *Int64) Store(x int64)                  { pt("atomic.store", b); b.v.Store(x) }
func (b *Int64) Add(x int64) int64              { pt("atomic.add", b); return b.v.Add(x) }
func (b *Int64) Swap(x int64) int64             { pt("atomic.swap", b); return b.v.Swap(x) }
func (b *Int64) CompareAndSwap(o, n int64) bool { pt("atomic.cas", b); return b.v.CompareAndSwap(o, n) }

type Uint32 struct{ v atomic.Uint32 }

func (b *Uint32) Load() uint32        { pt("atomic.load", b); return b.v.Load() }
func (b *Uint32) Store(x uint32)      { pt("atomic.store", b); b.v.Store(x) }
func (b *Uint32) Add(x uint32) uint32 { pt("atomic.add", b); return b.v.Add(x) }

type Uint64 struct{ v atomic.Uint64 }

func (b *Uint64) Load() uint64        { pt("atomic.load", b); return b.v.Load() }
func (b *Uint64) Store(x uint64)      { pt("atomic.store", b); b.v.Store(x) }
func (b *Uint64) Add(x uint64) uint64 { pt("atomic.add", b); return b.v.Add(x) }

type Value struct{ v atomic.Value }

func (b *Value) Load() any   { pt("atomic.load", b); return b.v.Load() }
func (b *Value) Store(x any) { pt("atomic.store", b); b.v.Store(x) }

type Pointer[T any] struct{ v atomic.Pointer[T] }

func (b *Pointer[T]) Load() *T     { pt("atomic.load", b); return b.v.Load() }
func (b *Pointer[T]) Store(x *T)   { pt("atomic.store", b); b.v.Store(x) }
func (b *Pointer[T]) Swap(x *T) *T { pt("atomic.swap", b); return b.v.Swap(x) }
func (b *Pointer[T]) CompareAndSwap(o, n *T) bool {
	pt("atomic.cas", b)
	return b.v.CompareAndSwap(o, n)
}
