// Package vctx mirrors package context for instrumented files: contexts are
// the real ones (so they interoperate with un-instrumented code) but cancel
// functions are visible operations (scheduling point + event on the context's
// Done channel) and timeouts run on the virtual clock.
package vctx

import (
	"context"
	"time"

	"github.com/containerd/stargz-snapshotter/estargz/vrt"
)

type (
	Context         = context.Context
	CancelFunc      = context.CancelFunc
	CancelCauseFunc = context.CancelCauseFunc
)

var (
	Canceled         = context.Canceled
	DeadlineExceeded = context.DeadlineExceeded
)

func Background() Context                              { return context.Background() }
func TODO() Context                                    { return context.TODO() }
func WithValue(p Context, k, v any) Context            { return context.WithValue(p, k, v) }
func Cause(c Context) error                            { return context.Cause(c) }
func WithoutCancel(p Context) Context                  { return context.WithoutCancel(p) }
func AfterFunc(c Context, f func()) (stop func() bool) { return context.AfterFunc(c, f) }

func WithCancel(parent Context) (Context, CancelFunc) {
	ctx, cancel := context.WithCancel(parent)
	if !vrt.Active() {
		return ctx, cancel
	}
	obj := vrt.ChanObj(ctx.Done())
	return ctx, func() {
		if vrt.Active() {
			vrt.Point("ctx.cancel", obj)
		}
		cancel()
	}
}

func WithCancelCause(parent Context) (Context, CancelCauseFunc) {
	ctx, cancel := context.WithCancelCause(parent)
	if !vrt.Active() {
		return ctx, cancel
	}
	obj := vrt.ChanObj(ctx.Done())
	return ctx, func(cause error) {
		if vrt.Active() {
			vrt.Point("ctx.cancel", obj)
		}
		cancel(cause)
	}
}

// FailsafeHorizon: context timeouts at least this long are treated as "never" under the scheduler.
var FailsafeHorizon = time.Second

type timeoutCtx struct {
	context.Context
	deadline time.Time
	timedOut bool
}

func (c *timeoutCtx) Err() error {
	if c.timedOut {
		return context.DeadlineExceeded
	}
	return c.Context.Err()
}

func (c *timeoutCtx) Deadline() (time.Time, bool) { return c.deadline, true }

func WithTimeout(parent Context, d time.Duration) (Context, CancelFunc) {
	if !vrt.Active() {
		return context.WithTimeout(parent, d)
	}
	if d >= FailsafeHorizon {
		// A failsafe timeout (fetch timeout, 120 s background-task timeout, ...) never fires under the
		// scheduler: the explorer may fire any pending timer at any scheduling point, and a 5-minute
		// timeout overtaking a runnable thread is an artefact, not a behaviour of the system. Checks that
		// want to explore a timeout path use a duration below the horizon.
		return WithCancel(parent)
	}
	inner, cancel := context.WithCancel(parent)
	c := &timeoutCtx{Context: inner, deadline: vrt.Now().Add(d)}
	obj := vrt.ChanObj(inner.Done())
	t := vrt.AddTimer(d, func() {
		if inner.Err() == nil {
			c.timedOut = true
			cancel()
		}
	})
	return c, func() {
		if vrt.Active() {
			vrt.Point("ctx.cancel", obj)
			t.Stop()
		}
		cancel()
	}
}

func WithDeadline(parent Context, dl time.Time) (Context, CancelFunc) {
	if !vrt.Active() {
		return context.WithDeadline(parent, dl)
	}
	return WithTimeout(parent, dl.Sub(vrt.Now()))
}

// Err is a helper for harness code: reading the cancellation state as a visible operation.
func Err(c Context) error {
	if vrt.Active() {
		vrt.Point("ctx.err", vrt.ChanObj(c.Done()))
	}
	return c.Err()
}
