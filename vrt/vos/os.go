// Package vos mirrors the parts of package os used by instrumented files whose
// file-system namespace operations must be visible to the scheduler (they are
// how threads communicate through the directory cache). Every namespace
// operation is a scheduling point and an event on the single object "fs".
package vos

import (
	"io/fs"
	"os"

	"github.com/containerd/stargz-snapshotter/estargz/vrt"
)

type (
	File      = os.File
	FileInfo  = os.FileInfo
	FileMode  = os.FileMode
	PathError = os.PathError
)

const (
	ModePerm = os.ModePerm
	O_RDONLY = os.O_RDONLY
	O_WRONLY = os.O_WRONLY
	O_RDWR   = os.O_RDWR
	O_CREATE = os.O_CREATE
	O_TRUNC  = os.O_TRUNC
	O_EXCL   = os.O_EXCL
	O_APPEND = os.O_APPEND
)

var (
	ErrNotExist = os.ErrNotExist
	ErrExist    = os.ErrExist
	Stdout      = os.Stdout
	Stderr      = os.Stderr
)

func pt(op string) {
	if vrt.Active() {
		vrt.Point("fs."+op, "fs")
	}
}

func Open(name string) (*File, error)   { pt("open"); return os.Open(name) }
func Create(name string) (*File, error) { pt("create"); return os.Create(name) }
func OpenFile(n string, f int, p FileMode) (*File, error) {
	pt("openfile")
	return os.OpenFile(n, f, p)
}
func CreateTemp(dir, pattern string) (*File, error) {
	pt("createtemp")
	return os.CreateTemp(dir, pattern)
}
func MkdirTemp(dir, pattern string) (string, error) {
	pt("mkdirtemp")
	return os.MkdirTemp(dir, pattern)
}
func Remove(name string) error                       { pt("remove"); return os.Remove(name) }
func RemoveAll(name string) error                    { pt("removeall"); return os.RemoveAll(name) }
func Rename(o, n string) error                       { pt("rename"); return os.Rename(o, n) }
func Mkdir(name string, p FileMode) error            { pt("mkdir"); return os.Mkdir(name, p) }
func MkdirAll(name string, p FileMode) error         { pt("mkdirall"); return os.MkdirAll(name, p) }
func Lchown(name string, uid, gid int) error         { pt("lchown"); return os.Lchown(name, uid, gid) }
func Chown(name string, uid, gid int) error          { pt("chown"); return os.Chown(name, uid, gid) }
func Chmod(name string, m FileMode) error            { pt("chmod"); return os.Chmod(name, m) }
func Stat(name string) (FileInfo, error)             { pt("stat"); return os.Stat(name) }
func Lstat(name string) (FileInfo, error)            { pt("lstat"); return os.Lstat(name) }
func ReadFile(name string) ([]byte, error)           { pt("readfile"); return os.ReadFile(name) }
func WriteFile(n string, d []byte, p FileMode) error { pt("writefile"); return os.WriteFile(n, d, p) }
func ReadDir(name string) ([]fs.DirEntry, error)     { pt("readdir"); return os.ReadDir(name) }
func IsNotExist(err error) bool                      { return os.IsNotExist(err) }
func IsExist(err error) bool                         { return os.IsExist(err) }
func Getenv(k string) string                         { return os.Getenv(k) }
func TempDir() string                                { return os.TempDir() }
func Getpid() int                                    { return os.Getpid() }
