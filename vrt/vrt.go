// Package vrt is the cooperative scheduler ("virtual runtime") that the
// instrumented copies of repository files are compiled against. Exactly one
// vrt thread runs at a time; every hooked synchronisation operation calls
// Point, which hands the decision "who runs next" to the explorer's chooser.
//
// When no scheduler is active (Run is not executing) every shim falls back to
// the real primitive, so fixtures can be built by ordinary code.
package vrt

import (
	"fmt"
	"hash/fnv"
	"runtime/debug"
	"sort"
	"strings"
	"time"
)

// ChoicePoint describes one decision offered to the chooser.
type ChoicePoint struct {
	Kind       byte // 'T' thread to run next, 'S' select case, 'E' environment answer
	N          int  // number of options; option 0 is the default
	CurEnabled bool // 'T' only: option 0 continues the running thread
	Label      string
	FP         uint64   // happens-before fingerprint of the state at this point
	Opts       []uint64 // canonical identity of each option (thread names, timer, answers)
}

// Failure is a property-independent execution failure (panic in a thread,
// explicit Fail from a harness).
type Failure struct {
	Msg   string
	Stack string
}

// Config for one execution.
type Config struct {
	Chooser  func(cp ChoicePoint) int
	MaxSteps int
	// NoPreempt, when non-nil, is asked for every point; true means the
	// operation is thread-local in this driver and no switch is offered. The
	// claim is checked: a second thread touching the same object is an error.
	NoPreempt func(kind string, obj any) bool
	// PollForeign: before declaring deadlock, poll blocked predicates for this
	// long (used only by harnesses with un-instrumented goroutines).
	PollForeign time.Duration
	// TraceOn records a textual trace of every point (for samples / replays).
	TraceOn bool
	// LockDominance: do not offer a switch at lock-acquire/once points while the
	// running thread already holds a lock. Sound when the code is data-race
	// free and lock acquisition order is acyclic (checked: a cycle is reported
	// as Broken). Atomics, channel operations, watched fields and waits always
	// remain switch points.
	LockDominance bool
	// Observer is called for every event (after it was recorded).
	Observer func(tid int, kind string, obj any)
	// KeepTimers: when false (default) pending timers at quiescence are fired
	// (time passes); when true the execution ends with timers pending.
	KeepTimers bool
}

// Result of one execution.
type Result struct {
	Failure   *Failure
	Steps     int
	Deadlock  bool     // no enabled thread while some are unfinished
	Blocked   []string // descriptions of unfinished threads at the end
	StepCap   bool
	TraceHash uint64
	Trace     []string
	Threads   int
	Timers    int    // timers fired
	Broken    string // harness/instrumentation error (not a verdict)
	FinalFP   uint64
}

type thread struct {
	id      int
	name    string
	wake    chan struct{}
	exited  chan struct{}
	done    bool
	blocked bool
	ready   func() bool
	why     string
	held    []any
	cname   uint64 // canonical name: independent of global spawn order
	nev     uint64 // events performed by this thread
	nspawn  uint64
}

type vtimer struct {
	at    int64
	seq   int
	fn    func() // executed by the scheduler when fired (must not block)
	dead  bool
	fired bool
	cname uint64
}

// Sched is the per-execution scheduler state.
type Sched struct {
	cfg      Config
	threads  []*thread
	cur      *thread
	aborting bool
	failure  *Failure
	broken   string
	steps    int
	stepCap  bool
	deadlock bool
	now      int64
	timers   []*vtimer
	tseq     int
	nfired   int
	finished chan struct{}
	hash     uint64
	trace    []string
	chans    map[uintptr]*chanState
	touched  map[any]int
	locals   map[string]any
	opts     []int
	lockEdge map[[2]any]struct{}
	skipped  int
	quiet    int
	fp       uint64
	objs     map[any]*objRec
	optNames []uint64
	nextName uint64 // canonical name for the next thread created (set by spawners)
}

type objRec struct {
	name uint64
	h    uint64
}

func mix(a, b uint64) uint64 {
	x := a*0x9E3779B97F4A7C15 ^ (b + 0x7F4A7C159E3779B9 + (a << 6) + (a >> 2))
	x ^= x >> 31
	x *= 0xBF58476D1CE4E5B9
	x ^= x >> 29
	return x
}

func strHash(k string) uint64 {
	h := uint64(1469598103934665603)
	for i := 0; i < len(k); i++ {
		h = (h ^ uint64(k[i])) * 1099511628211
	}
	return h
}

// Event records that the running thread performed a visible operation of the
// given kind on obj (at the moment it takes effect). Events on one object are
// totally ordered; the fingerprint of a state is determined by the per-object
// event sequences, i.e. by the happens-before relation of the execution.
func Event(kind string, obj any, extra uint64) {
	s := active
	if s == nil || s.aborting {
		return
	}
	s.event(s.cur.cname, &s.cur.nev, kind, obj, extra)
	if s.cfg.Observer != nil {
		s.cfg.Observer(s.cur.id, kind, obj)
	}
}

// Holding reports whether the running thread holds lock obj.
func Holding(obj any) bool {
	s := active
	if s == nil || s.cur == nil {
		return false
	}
	for _, h := range s.cur.held {
		if h == obj {
			return true
		}
	}
	return false
}

func (s *Sched) event(actor uint64, nev *uint64, kind string, obj any, extra uint64) {
	*nev++
	e := mix(mix(actor, *nev), mix(strHash(kind), extra))
	if obj == nil {
		obj = actor
	}
	if str, ok := obj.(string); ok && str == "" {
		obj = actor
	}
	if s.objs == nil {
		s.objs = map[any]*objRec{}
	}
	o := s.objs[obj]
	if o == nil {
		o = &objRec{name: e}
		s.objs[obj] = o
	} else {
		s.fp -= mix(o.name, o.h)
	}
	o.h = mix(o.h, e)
	s.fp += mix(o.name, o.h)
}

// FP returns the current happens-before fingerprint.
func FP() uint64 {
	if s := active; s != nil {
		return s.fp
	}
	return 0
}

var active *Sched

// FreeRunning is set by the race pass: harness bodies run as ordinary goroutines on the real
// primitives (shims pass through), so that Go's race detector sees the real happens-before
// relation. Nothing is decided in this mode.
var FreeRunning bool

// Active reports whether a scheduler is running.
func Active() bool { return active != nil && !active.aborting }

type abortSig struct{}

const timerOpt = -1

// Run executes body as thread 0 under a fresh scheduler and returns when no
// thread can make progress any more.
func Run(cfg Config, body func()) Result {
	if active != nil {
		panic("vrt: nested Run")
	}
	if cfg.MaxSteps == 0 {
		cfg.MaxSteps = 200000
	}
	s := &Sched{cfg: cfg, finished: make(chan struct{}), chans: map[uintptr]*chanState{}, hash: 1469598103934665603,
		now: 1_700_000_000_000_000_000}
	active = s
	t := s.newThread("main", body)
	s.cur = t
	t.wake <- struct{}{}
	<-s.finished
	// tear down whatever is still parked
	s.aborting = true
	var blocked []string
	for _, th := range s.threads {
		if !th.done {
			blocked = append(blocked, fmt.Sprintf("t%d(%s) %s", th.id, th.name, th.why))
			s.cur = th
			th.wake <- struct{}{}
			select {
			case <-th.exited:
			case <-time.After(20 * time.Second):
				s.broken = "thread did not unwind on abort: " + th.name + " " + th.why
			}
		}
	}
	active = nil
	return Result{Failure: s.failure, Steps: s.steps, Deadlock: s.deadlock, Blocked: blocked, StepCap: s.stepCap,
		TraceHash: s.hash, Trace: s.trace, Threads: len(s.threads), Timers: s.nfired, Broken: s.broken, FinalFP: s.fp}
}

func (s *Sched) newThread(name string, f func()) *thread {
	t := &thread{id: len(s.threads), name: name, wake: make(chan struct{}, 1), exited: make(chan struct{})}
	if s.nextName != 0 {
		t.cname, s.nextName = s.nextName, 0
	} else if s.cur != nil {
		s.cur.nspawn++
		t.cname = mix(s.cur.cname, s.cur.nspawn)
	} else {
		t.cname = 1
	}
	s.threads = append(s.threads, t)
	if s.cfg.Observer != nil && s.cur != nil {
		s.cfg.Observer(s.cur.id, "spawn", t.id)
	}
	go func() {
		<-t.wake
		defer close(t.exited)
		if s.aborting {
			t.done = true
			return
		}
		defer func() {
			r := recover()
			t.done = true
			if s.aborting {
				if _, ok := r.(abortSig); !ok && r != nil && s.failure == nil && s.broken == "" {
					// a panic other than ours while unwinding: ignore, execution is over
				}
				return
			}
			if r != nil {
				if _, ok := r.(abortSig); !ok {
					s.failure = &Failure{Msg: fmt.Sprintf("panic in t%d(%s): %v", t.id, t.name, r), Stack: string(debug.Stack())}
				}
				s.end()
				return
			}
			t.why = "finished"
			s.reschedule()
		}()
		f()
	}()
	return t
}

// end stops the execution: the Run goroutine takes over.
func (s *Sched) end() {
	select {
	case <-s.finished:
	default:
		close(s.finished)
	}
}

func (s *Sched) note(kind string, obj any) {
	s.steps++
	h := s.hash
	h = (h ^ uint64(s.cur.id+1)) * 1099511628211
	for i := 0; i < len(kind); i++ {
		h = (h ^ uint64(kind[i])) * 1099511628211
	}
	s.hash = h
	if s.cfg.TraceOn {
		s.trace = append(s.trace, fmt.Sprintf("t%d %s %s", s.cur.id, kind, descr(obj)))
	}
}

func descr(obj any) string {
	switch v := obj.(type) {
	case nil:
		return ""
	case string:
		return v
	case fmt.Stringer:
		return v.String()
	}
	return fmt.Sprintf("%T", obj)
}

// Point is a scheduling point before a visible operation of the running thread.
func Point(kind string, obj any) {
	s := active
	if s == nil {
		return
	}
	if s.aborting {
		panic(abortSig{})
	}
	s.note(kind, obj)
	if s.steps > s.cfg.MaxSteps {
		s.stepCap = true
		s.end()
		s.parkForever()
	}
	if s.cfg.LockDominance && len(s.cur.held) > 0 && lockish(kind) {
		s.skipped++
		if !deferredEffect(kind) {
			Event(kind, obj, 0)
		}
		return
	}
	defer func() {
		if !deferredEffect(kind) {
			Event(kind, obj, 0)
		}
	}()
	if s.cfg.NoPreempt != nil && s.cfg.NoPreempt(kind, obj) {
		if s.touched == nil {
			s.touched = map[any]int{}
		}
		if prev, ok := s.touched[obj]; ok && prev != s.cur.id {
			s.broken = fmt.Sprintf("NoPreempt filter claimed %s %T thread-local but threads %d and %d touched it", kind, obj, prev, s.cur.id)
			s.end()
			s.parkForever()
		}
		s.touched[obj] = s.cur.id
		return
	}
	s.reschedule()
}

func (s *Sched) parkForever() {
	t := s.cur
	t.blocked = true
	t.ready = func() bool { return false }
	<-t.wake
	panic(abortSig{})
}

// Block parks the running thread until ready() holds. ready is evaluated by
// the scheduler while other threads are stopped.
func Block(why string, ready func() bool) {
	s := active
	if s == nil {
		if FreeRunning {
			// race pass: real goroutines, poll the predicate (its reads are harness state; the
			// race filter ignores reports whose frames are all in harness code)
			for i := 0; !ready(); i++ {
				if i > 200000 {
					panic("vrt.Block (free running) timed out: " + why)
				}
				time.Sleep(50 * time.Microsecond)
			}
			return
		}
		panic("vrt.Block without scheduler: " + why)
	}
	if s.aborting {
		panic(abortSig{})
	}
	t := s.cur
	t.blocked, t.ready, t.why = true, ready, why
	s.reschedule()
	t.blocked, t.ready, t.why = false, nil, ""
}

// reschedule picks the next thread to run (possibly firing timers first) and
// transfers control to it. It returns when the calling thread is chosen again.
// It is also called by a finishing thread, which then never resumes.
func (s *Sched) reschedule() {
	me := s.cur
	polled := time.Duration(0)
	for {
		curEnabled := !me.done && (!me.blocked || me.ready())
		opts := s.opts[:0]
		if curEnabled {
			opts = append(opts, me.id)
		}
		for _, t := range s.threads {
			if t == me || t.done {
				continue
			}
			if !t.blocked || t.ready() {
				opts = append(opts, t.id)
			}
		}
		if s.nextTimer() != nil {
			allDone := true
			for _, t := range s.threads {
				if !t.done {
					allDone = false
				}
			}
			// KeepTimers: pending timers are not fired once every thread has finished
			if !(s.cfg.KeepTimers && allDone) {
				opts = append(opts, timerOpt)
			}
		}
		s.opts = opts
		if len(opts) == 0 {
			unfinished := false
			for _, t := range s.threads {
				if !t.done {
					unfinished = true
				}
			}
			if unfinished && polled < s.cfg.PollForeign {
				time.Sleep(200 * time.Microsecond)
				polled += 200 * time.Microsecond
				continue
			}
			s.deadlock = unfinished
			s.end()
			if me.done {
				return
			}
			<-me.wake
			panic(abortSig{})
		}
		pick := 0
		if len(opts) > 1 && s.quiet == 0 {
			names := s.optNames[:0]
			for _, o := range opts {
				if o == timerOpt {
					names = append(names, mix(0x71, s.nextTimer().cname))
				} else {
					names = append(names, s.threads[o].cname)
				}
			}
			s.optNames = names
			pick = s.cfg.Chooser(ChoicePoint{Kind: 'T', N: len(opts), CurEnabled: curEnabled, Label: me.why, FP: mix(s.fp, me.cname), Opts: names})
			if pick < 0 || pick >= len(opts) {
				s.broken = fmt.Sprintf("chooser returned %d of %d", pick, len(opts))
				s.end()
				if me.done {
					return
				}
				<-me.wake
				panic(abortSig{})
			}
		}
		if opts[pick] == timerOpt {
			s.fireNext()
			continue
		}
		next := s.threads[opts[pick]]
		if next == me {
			return
		}
		s.cur = next
		next.wake <- struct{}{}
		if me.done {
			return
		}
		<-me.wake
		if s.aborting {
			panic(abortSig{})
		}
		return
	}
}

// deferredEffect: the operation's effect (and hence its event) is recorded by
// the shim when it completes, not at the scheduling point.
func deferredEffect(kind string) bool {
	switch kind {
	case "lock", "rlock", "wlock", "once", "trylock", "trywlock", "tryrlock", "send", "recv", "select", "wg.wait", "cond.wait", "sleep", "close", "acq", "rel":
		return true
	}
	return false
}

func lockish(kind string) bool {
	switch kind {
	case "lock", "rlock", "wlock", "once", "trylock", "trywlock", "tryrlock", "pool.get", "pool.put":
		return true
	}
	return false
}

// Acquired records that the running thread now holds lock obj.
func Acquired(obj any) {
	s := active
	if s == nil || s.aborting {
		return
	}
	t := s.cur
	if s.cfg.LockDominance {
		for _, h := range t.held {
			if h == obj {
				continue
			}
			if s.lockEdge == nil {
				s.lockEdge = map[[2]any]struct{}{}
			}
			e := [2]any{h, obj}
			if _, ok := s.lockEdge[e]; !ok {
				s.lockEdge[e] = struct{}{}
				if _, inv := s.lockEdge[[2]any{obj, h}]; inv && s.broken == "" {
					s.broken = fmt.Sprintf("lock order inversion between %T and %T: LockDominance reduction is unsound for this harness", h, obj)
				}
			}
		}
	}
	t.held = append(t.held, obj)
	s.event(t.cname, &t.nev, "acq", obj, 0)
	if s.cfg.Observer != nil {
		s.cfg.Observer(t.id, "acq", obj)
	}
}

// Released records that lock obj was released.
func Released(obj any) {
	s := active
	if s == nil {
		return
	}
	rm := func(t *thread) bool {
		for i := len(t.held) - 1; i >= 0; i-- {
			if t.held[i] == obj {
				t.held = append(t.held[:i], t.held[i+1:]...)
				return true
			}
		}
		return false
	}
	if !s.aborting && s.cur != nil {
		s.event(s.cur.cname, &s.cur.nev, "rel", obj, 0)
	}
	if s.cur != nil && rm(s.cur) {
		return
	}
	for _, t := range s.threads {
		if rm(t) {
			return
		}
	}
}

// Quiet runs f (a driver's set-up phase) under the scheduler without offering
// choices: the default schedule is taken at every point, so the explored
// interleavings start after the set-up.
func Quiet(f func()) {
	s := active
	if s == nil {
		f()
		return
	}
	s.quiet++
	defer func() { s.quiet-- }()
	f()
}

// WaitIdle parks the running thread until every other thread has finished or
// is blocked (used by harnesses to let asynchronous callbacks complete before
// observing a quiescent state).
func WaitIdle() {
	s := active
	if s == nil {
		return
	}
	me := s.cur
	Block("wait-idle", func() bool {
		for _, t := range s.threads {
			if t == me || t.done {
				continue
			}
			if !t.blocked || (t.why != "wait-idle" && t.ready()) {
				return false
			}
		}
		return true
	})
}

// Go starts f as a new vrt thread (or a plain goroutine without a scheduler).
func Go(f func()) {
	GoNamed("go", f)
}

// GoNamed is Go with a thread name for traces.
func GoNamed(name string, f func()) {
	s := active
	if s == nil {
		go f()
		return
	}
	if s.aborting {
		panic(abortSig{})
	}
	s.newThread(name, f) // spawn is release-like: the spawner's next point offers the switch
}

// Choose is an environment choice with n answers; 0 is the default answer.
func Choose(label string, n int) int {
	s := active
	if s == nil || n <= 1 {
		return 0
	}
	if s.aborting {
		panic(abortSig{})
	}
	s.note("choose", label)
	if s.quiet > 0 {
		s.event(s.cur.cname, &s.cur.nev, "choose", "env:"+label, 1)
		return 0
	}
	c := s.cfg.Chooser(ChoicePoint{Kind: 'E', N: n, Label: label, FP: mix(mix(s.fp, s.cur.cname), strHash(label))})
	s.event(s.cur.cname, &s.cur.nev, "choose", "env:"+label, uint64(c)+1)
	if c < 0 || c >= n {
		s.broken = fmt.Sprintf("chooser returned %d of %d (env)", c, n)
		s.end()
		s.parkForever()
	}
	return c
}

// Fail records a harness-detected failure and stops the execution.
func Fail(format string, args ...any) {
	s := active
	if s == nil {
		panic(fmt.Sprintf(format, args...))
	}
	if s.aborting {
		panic(abortSig{})
	}
	if s.failure == nil {
		s.failure = &Failure{Msg: fmt.Sprintf(format, args...), Stack: string(debug.Stack())}
	}
	s.end()
	s.parkForever()
}

// Broken records a harness / instrumentation error (never a verdict).
func Broken(format string, args ...any) {
	s := active
	if s == nil {
		panic(fmt.Sprintf(format, args...))
	}
	if s.aborting {
		panic(abortSig{})
	}
	s.broken = fmt.Sprintf(format, args...)
	s.end()
	s.parkForever()
}

// ThreadID returns the id of the running vrt thread (0 without scheduler).
func ThreadID() int {
	if s := active; s != nil && s.cur != nil {
		return s.cur.id
	}
	return 0
}

// Aborting reports whether the execution is being torn down; release-type
// shims use it to stay silent.
func Aborting() bool { return active != nil && active.aborting }

// Local returns per-execution storage (reset by every Run).
func Local(key string, mk func() any) any {
	s := active
	if s == nil {
		return mk()
	}
	if s.locals == nil {
		s.locals = map[string]any{}
	}
	v, ok := s.locals[key]
	if !ok {
		v = mk()
		s.locals[key] = v
	}
	return v
}

// ---- virtual time -----------------------------------------------------------

// Now returns the virtual clock (strictly increasing) or real time.
func Now() time.Time {
	s := active
	if s == nil {
		return time.Now()
	}
	s.now++
	return time.Unix(0, s.now)
}

// NowPeek reads the virtual clock without advancing it.
func NowPeek() time.Time {
	s := active
	if s == nil {
		return time.Now()
	}
	return time.Unix(0, s.now)
}

func (s *Sched) nextTimer() *vtimer {
	var best *vtimer
	for _, t := range s.timers {
		if t.dead || t.fired {
			continue
		}
		if best == nil || t.at < best.at || (t.at == best.at && t.seq < best.seq) {
			best = t
		}
	}
	return best
}

func (s *Sched) fireNext() {
	t := s.nextTimer()
	if t == nil {
		return
	}
	if t.at > s.now {
		s.now = t.at
	}
	t.fired = true
	s.nfired++
	s.note("timer", "")
	var n uint64
	s.event(t.cname, &n, "timer.fire", t, 0)
	n = 0
	s.event(t.cname, &n, "timer.fire", "clock", 0)
	s.nextName = mix(t.cname, 0x7179) // a thread spawned by fn is named after the timer
	defer func() { s.nextName = 0 }()
	// compact
	live := s.timers[:0]
	for _, x := range s.timers {
		if !x.dead && !x.fired {
			live = append(live, x)
		}
	}
	s.timers = live
	t.fn()
}

// Timer is a handle on a virtual timer.
type Timer struct {
	vt   *vtimer
	real *time.Timer
	fn   func()
}

// AddTimer registers fn to run (inside the scheduler, must not block) after d.
func AddTimer(d time.Duration, fn func()) *Timer {
	s := active
	if s == nil {
		return &Timer{real: time.AfterFunc(d, fn), fn: fn}
	}
	if s.aborting {
		panic(abortSig{})
	}
	if d < 0 {
		d = 0
	}
	s.tseq++
	s.cur.nev++
	vt := &vtimer{at: s.now + int64(d), seq: s.tseq, fn: fn, cname: mix(mix(s.cur.cname, s.cur.nev), 0x7177)}
	s.timers = append(s.timers, vt)
	s.event(s.cur.cname, &s.cur.nev, "timer.new", vt, uint64(d))
	return &Timer{vt: vt, fn: fn}
}

// Stop cancels the timer; reports whether it was still pending.
func (t *Timer) Stop() bool {
	if t.vt == nil {
		return t.real.Stop()
	}
	was := !t.vt.dead && !t.vt.fired
	t.vt.dead = true
	Event("timer.stop", t.vt, 0)
	return was
}

// Reset re-arms the timer.
func (t *Timer) Reset(d time.Duration) bool {
	if t.vt == nil {
		return t.real.Reset(d)
	}
	was := t.Stop()
	s := active
	if s == nil {
		return was
	}
	s.tseq++
	s.cur.nev++
	t.vt = &vtimer{at: s.now + int64(d), seq: s.tseq, fn: t.fn, cname: mix(mix(s.cur.cname, s.cur.nev), 0x7178)}
	s.timers = append(s.timers, t.vt)
	s.event(s.cur.cname, &s.cur.nev, "timer.new", t.vt, uint64(d))
	return was
}

// Sleep blocks the running thread for d of virtual time.
func Sleep(d time.Duration) {
	s := active
	if s == nil {
		if FreeRunning && d > 5*time.Millisecond {
			d = 5 * time.Millisecond // the race pass does not wait for TTLs
		}
		time.Sleep(d)
		return
	}
	fired := false
	AddTimer(d, func() { fired = true })
	Point("sleep", "")
	for !fired {
		Block("sleep", func() bool { return fired })
	}
	Event("sleep.wake", nil, 0)
}

// SpawnFromTimer is used by AfterFunc: the callback becomes a new thread.
func SpawnFromTimer(name string, f func()) {
	s := active
	if s == nil {
		go f()
		return
	}
	s.newThread(name, f)
}

// PendingTimers returns the number of armed virtual timers.
func PendingTimers() int {
	s := active
	if s == nil {
		return 0
	}
	n := 0
	for _, t := range s.timers {
		if !t.dead && !t.fired {
			n++
		}
	}
	return n
}

// CrashHook, when set by a harness, is called at every crash point that the
// instrumenter inserted (files listed under "crash" in inst.json): before every
// statement of those files. The label is "<file>:<line>".
var CrashHook func(label string)

// Crash is the crash-point marker.
func Crash(label string) {
	if h := CrashHook; h != nil {
		h(label)
	}
}

// ---- helpers ---------------------------------------------------------------

// SortedKeys returns the keys of m in a canonical order (one legal iteration
// order of the map, made deterministic).
func SortedKeys[K comparable, V any](m map[K]V) []K {
	keys := make([]K, 0, len(m))
	for k := range m {
		keys = append(keys, k)
	}
	strs := make(map[K]string, len(keys))
	for _, k := range keys {
		strs[k] = fmt.Sprintf("%v", k)
	}
	sort.Slice(keys, func(i, j int) bool {
		a, b := strs[keys[i]], strs[keys[j]]
		if len(a) != len(b) && !strings.ContainsAny(a, "{ ") {
			return len(a) < len(b)
		}
		return a < b
	})
	return keys
}

// HashString is a small stable hash helper for harnesses.
func HashString(s string) uint64 {
	h := fnv.New64a()
	h.Write([]byte(s))
	return h.Sum64()
}
