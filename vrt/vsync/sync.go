// Package vsync mirrors the parts of package sync the repository uses; under
// an active vrt scheduler every operation is a scheduling point and blocking
// is visible to the scheduler, otherwise the real primitive is used.
package vsync

import (
	"sync"

	"github.com/containerd/stargz-snapshotter/estargz/vrt"
)

type Locker = sync.Locker

// Mutex ------------------------------------------------------------------------
type Mutex struct {
	real   sync.Mutex
	locked bool
}

func (m *Mutex) Lock() {
	if !vrt.Active() {
		if vrt.Aborting() {
			vrt.Point("lock", m) // panics with the abort signal
		}
		m.real.Lock()
		return
	}
	vrt.Point("lock", m)
	for m.locked {
		vrt.Block("mutex", func() bool { return !m.locked })
	}
	m.locked = true
	vrt.Acquired(m)
}

func (m *Mutex) TryLock() bool {
	if !vrt.Active() {
		return m.real.TryLock()
	}
	vrt.Point("trylock", m)
	if m.locked {
		vrt.Event("tryfail", m, 0)
		return false
	}
	m.locked = true
	vrt.Acquired(m)
	return true
}

func (m *Mutex) Unlock() {
	if vrt.Aborting() {
		m.locked = false
		vrt.Released(m)
		return
	}
	if !vrt.Active() {
		m.real.Unlock()
		return
	}
	if !m.locked {
		panic("sync: unlock of unlocked mutex")
	}
	vrt.Released(m)
	m.locked = false // release: no scheduling point needed (the next acquire of this thread offers the switch)
}

// RWMutex ------------------------------------------------------------------------
type RWMutex struct {
	real     sync.RWMutex
	readers  int
	writer   bool
	wwaiting int
}

func (m *RWMutex) Lock() {
	if !vrt.Active() {
		if vrt.Aborting() {
			vrt.Point("lock", m)
		}
		m.real.Lock()
		return
	}
	vrt.Point("wlock", m)
	if m.writer || m.readers > 0 {
		m.wwaiting++
		for m.writer || m.readers > 0 {
			vrt.Block("rwmutex.Lock", func() bool { return !m.writer && m.readers == 0 })
		}
		m.wwaiting--
	}
	m.writer = true
	vrt.Acquired(m)
}

func (m *RWMutex) Unlock() {
	if vrt.Aborting() {
		m.writer = false
		vrt.Released(m)
		return
	}
	if !vrt.Active() {
		m.real.Unlock()
		return
	}
	if !m.writer {
		panic("sync: Unlock of unlocked RWMutex")
	}
	m.writer = false
	vrt.Released(m)
}

func (m *RWMutex) RLock() {
	if !vrt.Active() {
		if vrt.Aborting() {
			vrt.Point("lock", m)
		}
		m.real.RLock()
		return
	}
	vrt.Point("rlock", m)
	// Go's RWMutex: a pending writer blocks new readers.
	for m.writer || m.wwaiting > 0 {
		vrt.Block("rwmutex.RLock", func() bool { return !m.writer && m.wwaiting == 0 })
	}
	m.readers++
	vrt.Acquired(m)
}

func (m *RWMutex) RUnlock() {
	if vrt.Aborting() {
		if m.readers > 0 {
			m.readers--
		}
		vrt.Released(m)
		return
	}
	if !vrt.Active() {
		m.real.RUnlock()
		return
	}
	if m.readers <= 0 {
		panic("sync: RUnlock of unlocked RWMutex")
	}
	m.readers--
	vrt.Released(m)
}

func (m *RWMutex) TryLock() bool {
	if !vrt.Active() {
		return m.real.TryLock()
	}
	vrt.Point("trywlock", m)
	if m.writer || m.readers > 0 {
		vrt.Event("tryfail", m, 0)
		return false
	}
	m.writer = true
	vrt.Acquired(m)
	return true
}

func (m *RWMutex) TryRLock() bool {
	if !vrt.Active() {
		return m.real.TryRLock()
	}
	vrt.Point("tryrlock", m)
	if m.writer || m.wwaiting > 0 {
		vrt.Event("tryfail", m, 0)
		return false
	}
	m.readers++
	vrt.Acquired(m)
	return true
}

type rlocker RWMutex

func (r *rlocker) Lock()   { (*RWMutex)(r).RLock() }
func (r *rlocker) Unlock() { (*RWMutex)(r).RUnlock() }

func (m *RWMutex) RLocker() Locker { return (*rlocker)(m) }

// Once ------------------------------------------------------------------------
type Once struct {
	real    sync.Mutex
	done    bool
	running bool
}

func (o *Once) Do(f func()) {
	if !vrt.Active() && !vrt.Aborting() {
		o.real.Lock()
		defer o.real.Unlock()
		if !o.done {
			defer func() { o.done = true }()
			f()
		}
		return
	}
	vrt.Point("once", o)
	for o.running {
		vrt.Block("once", func() bool { return !o.running })
	}
	if o.done {
		vrt.Event("once.skip", o, 0)
		return
	}
	o.running = true
	vrt.Event("once.run", o, 0)
	defer func() {
		o.done, o.running = true, false
		vrt.Event("once.done", o, 0)
	}()
	f()
}

// OnceFunc / OnceValue minimal equivalents.
func OnceFunc(f func()) func() {
	var o Once
	return func() { o.Do(f) }
}

func OnceValue[T any](f func() T) func() T {
	var o Once
	var v T
	return func() T { o.Do(func() { v = f() }); return v }
}

func OnceValues[T1, T2 any](f func() (T1, T2)) func() (T1, T2) {
	var o Once
	var v1 T1
	var v2 T2
	return func() (T1, T2) { o.Do(func() { v1, v2 = f() }); return v1, v2 }
}

// WaitGroup ------------------------------------------------------------------------
type WaitGroup struct {
	real sync.WaitGroup
	n    int
}

func (w *WaitGroup) Add(d int) {
	if vrt.Aborting() {
		w.n += d
		return
	}
	if !vrt.Active() {
		w.real.Add(d)
		return
	}
	w.n += d
	if w.n < 0 {
		panic("sync: negative WaitGroup counter")
	}
	vrt.Event("wg.add", w, uint64(int64(d)))
}

func (w *WaitGroup) Done() { w.Add(-1) }

func (w *WaitGroup) Wait() {
	if !vrt.Active() {
		if vrt.Aborting() {
			vrt.Point("wg.wait", w)
		}
		w.real.Wait()
		return
	}
	vrt.Point("wg.wait", w)
	for w.n > 0 {
		vrt.Block("wg.wait", func() bool { return w.n == 0 })
	}
	vrt.Event("wg.waited", w, 0)
}

func (w *WaitGroup) Go(f func()) {
	w.Add(1)
	vrt.Go(func() {
		defer w.Done()
		f()
	})
}

// Cond ------------------------------------------------------------------------
type Cond struct {
	L       Locker
	real    *sync.Cond
	waiters []*condWaiter
}

type condWaiter struct{ woken bool }

func NewCond(l Locker) *Cond { return &Cond{L: l, real: sync.NewCond(l)} }

func (c *Cond) Wait() {
	if !vrt.Active() {
		if vrt.Aborting() {
			vrt.Point("cond.wait", c)
		}
		c.real.Wait()
		return
	}
	w := &condWaiter{}
	c.waiters = append(c.waiters, w)
	vrt.Event("cond.enq", c, 0)
	c.L.Unlock()
	for !w.woken {
		vrt.Block("cond.wait", func() bool { return w.woken })
	}
	vrt.Event("cond.woken", c, 0)
	c.L.Lock()
}

func (c *Cond) Signal() {
	if !vrt.Active() {
		if !vrt.Aborting() {
			c.real.Signal()
		}
		return
	}
	vrt.Event("cond.signal", c, 0)
	if len(c.waiters) > 0 {
		c.waiters[0].woken = true
		c.waiters = c.waiters[1:]
	}
}

func (c *Cond) Broadcast() {
	if !vrt.Active() {
		if !vrt.Aborting() {
			c.real.Broadcast()
		}
		return
	}
	vrt.Event("cond.broadcast", c, 0)
	for _, w := range c.waiters {
		w.woken = true
	}
	c.waiters = nil
}

// Pool: deterministic LIFO that always prefers a recycled object ------------------
type Pool struct {
	New   func() any
	mu    sync.Mutex
	items []any
}

func (p *Pool) Get() any {
	if vrt.Active() {
		vrt.Point("pool.get", p)
	}
	p.mu.Lock()
	if n := len(p.items); n > 0 {
		x := p.items[n-1]
		p.items = p.items[:n-1]
		p.mu.Unlock()
		return x
	}
	p.mu.Unlock()
	if p.New != nil {
		return p.New()
	}
	return nil
}

func (p *Pool) Put(x any) {
	if x == nil {
		return
	}
	if vrt.Active() {
		vrt.Point("pool.put", p)
	}
	p.mu.Lock()
	p.items = append(p.items, x)
	p.mu.Unlock()
}

// Map ------------------------------------------------------------------------
type Map struct{ real sync.Map }

func (m *Map) Load(k any) (any, bool) { vrt.Point("map.load", m); return m.real.Load(k) }
func (m *Map) Store(k, v any)         { vrt.Point("map.store", m); m.real.Store(k, v) }
func (m *Map) Delete(k any)           { vrt.Point("map.delete", m); m.real.Delete(k) }
func (m *Map) LoadOrStore(k, v any) (any, bool) {
	vrt.Point("map.loadorstore", m)
	return m.real.LoadOrStore(k, v)
}
func (m *Map) LoadAndDelete(k any) (any, bool) {
	vrt.Point("map.loadanddelete", m)
	return m.real.LoadAndDelete(k)
}
func (m *Map) Range(f func(k, v any) bool) { vrt.Point("map.range", m); m.real.Range(f) }
