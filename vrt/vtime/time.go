// Package vtime mirrors the parts of package time the instrumented files use.
// Clocks, sleeps and timers are virtual under an active vrt scheduler.
package vtime

import (
	"time"

	"github.com/containerd/stargz-snapshotter/estargz/vrt"
)

type (
	Duration = time.Duration
	Time     = time.Time
	Month    = time.Month
	Location = time.Location
	Weekday  = time.Weekday
)

const (
	Nanosecond  = time.Nanosecond
	Microsecond = time.Microsecond
	Millisecond = time.Millisecond
	Second      = time.Second
	Minute      = time.Minute
	Hour        = time.Hour

	RFC3339     = time.RFC3339
	RFC3339Nano = time.RFC3339Nano
	RFC1123     = time.RFC1123
)

var (
	UTC   = time.UTC
	Local = time.Local
)

func Now() Time               { return vrt.Now() }
func Since(t Time) Duration   { return vrt.Now().Sub(t) }
func Until(t Time) Duration   { return t.Sub(vrt.Now()) }
func Unix(s, ns int64) Time   { return time.Unix(s, ns) }
func UnixMilli(ms int64) Time { return time.UnixMilli(ms) }
func Date(y int, m Month, d, h, mi, s, ns int, l *Location) Time {
	return time.Date(y, m, d, h, mi, s, ns, l)
}
func Parse(l, v string) (Time, error)          { return time.Parse(l, v) }
func ParseDuration(s string) (Duration, error) { return time.ParseDuration(s) }
func Sleep(d Duration)                         { vrt.Sleep(d) }

// Timer mirrors time.Timer.
type Timer struct {
	C <-chan Time
	t *vrt.Timer
	c chan Time
}

func AfterFunc(d Duration, f func()) *Timer {
	if !vrt.Active() {
		return &Timer{t: vrt.AddTimer(d, f)}
	}
	return &Timer{t: vrt.AddTimer(d, func() { vrt.SpawnFromTimer("afterfunc", f) })}
}

func NewTimer(d Duration) *Timer {
	c := make(chan Time, 1)
	t := vrt.AddTimer(d, func() {
		select {
		case c <- vrt.Now():
		default:
		}
	})
	return &Timer{C: c, c: c, t: t}
}

func After(d Duration) <-chan Time { return NewTimer(d).C }

func (t *Timer) Stop() bool {
	if vrt.Active() {
		vrt.Point("timer.stop", t)
	}
	return t.t.Stop()
}

func (t *Timer) Reset(d Duration) bool {
	if vrt.Active() {
		vrt.Point("timer.reset", t)
	}
	return t.t.Reset(d)
}
